//! C09 — HTTP stream reassembly is invariant to segmentation, sequence origin and arrival order.
//!
//! For one connection the request/response byte streams are delivered under many (partition, ISN,
//! arrival order) choices.  Oracle (a): differential against the in-order single-segment delivery
//! (exactly one request and one response, canonically equal).  Oracle (b): history invariant — at
//! the moment a message is reported the segments delivered so far must cover the contiguous prefix
//! of that direction up to the end of its head.

use crate::pkt::{self, flags, Endpoints, Link, Script};
use crate::rt::{hex, Ctx, PropSpec, Rng};
use crate::scenario::{self, Runner, Which};
use serde_json::json;

#[derive(Clone, Debug)]
pub struct DataSeg {
    pub from_client: bool,
    pub offset: usize,
    pub bytes: Vec<u8>,
}

pub struct Exchange {
    pub ep: Endpoints,
    pub link: Link,
    pub req: Vec<u8>,
    pub res: Vec<u8>,
    pub req_head_end: usize,
    pub res_head_end: usize,
    pub h2: bool,
}

/// the head ends at the first blank line, CRLF CRLF or (bare-LF heads) LF LF, whichever is first
fn head_end_h1(b: &[u8]) -> usize {
    let crlf = b.windows(4).position(|w| w == b"\r\n\r\n").map(|p| p + 4);
    let lf = b.windows(2).position(|w| w == b"\n\n").map(|p| p + 2);
    match (crlf, lf) {
        (Some(a), Some(b)) => a.min(b),
        (Some(a), None) | (None, Some(a)) => a,
        (None, None) => b.len(),
    }
}

/// Line-ending and body variants of a generated HTTP/1.x message: the head with bare LF line ends
/// (accepted by the parser), and a body that itself contains blank lines of either kind
/// (multipart bodies do), so that "where the head ends" must not depend on how much of the body
/// has arrived.
fn h1_variant(r: &mut Rng, msg: Vec<u8>) -> Vec<u8> {
    let he = head_end_h1(&msg);
    let (head, body) = msg.split_at(he);
    let mut out: Vec<u8> = if r.chance(1, 4) {
        String::from_utf8_lossy(head).replace("\r\n", "\n").into_bytes()
    } else {
        head.to_vec()
    };
    out.extend_from_slice(body);
    if r.chance(1, 3) {
        let parts: [&[u8]; 5] = [b"--b0undary\r\nContent-Disposition: form-data; name=\"a\"\r\n\r\nvalue\r\n", b"\r\n\r\n", b"\n\n", b"x=1&y=2", b"GET /inner HTTP/1.1\r\nHost: inner\r\n\r\n"];
        for _ in 0..(1 + r.usize(3)) {
            out.extend_from_slice(*r.pick(&parts));
        }
    }
    out
}

/// end of the first HEADERS frame on a stream > 0 (the whole block is in that frame here)
fn head_end_h2(b: &[u8], preface: bool) -> usize {
    let mut o = if preface { 24 } else { 0 };
    while o + 9 <= b.len() {
        let len = ((b[o] as usize) << 16) | ((b[o + 1] as usize) << 8) | b[o + 2] as usize;
        let t = b[o + 3];
        let sid = u32::from_be_bytes([b[o + 5], b[o + 6], b[o + 7], b[o + 8]]) & 0x7fff_ffff;
        o += 9 + len;
        if t == 1 && sid > 0 {
            return o.min(b.len());
        }
    }
    b.len()
}

pub fn gen_exchange(r: &mut Rng, id: u64) -> Exchange {
    let h2 = r.chance(1, 4);
    let (req, res) = if h2 {
        if r.chance(1, 2) { scenario::rich_h2(r, id, false) } else { scenario::simple_h2(r, id, false) }
    } else {
        let (q, p) = (scenario::http1_request(r, id), scenario::http1_response(r, id));
        (h1_variant(r, q), h1_variant(r, p))
    };
    let (req, res) = if h2 && r.chance(1, 3) {
        // several streams: the client opens 1 then 3; the server answers stream 3 before stream 1
        // (legal).  What is reported is the first header block in byte order, however many of the
        // later frames have arrived when it completes.
        fn frame(t: u8, fl: u8, sid: u32, payload: &[u8]) -> Vec<u8> {
            let mut f = vec![(payload.len() >> 16) as u8, (payload.len() >> 8) as u8, payload.len() as u8, t, fl];
            f.extend_from_slice(&sid.to_be_bytes());
            f.extend_from_slice(payload);
            f
        }
        fn lit(name: &str, value: &str) -> Vec<u8> {
            let mut b = vec![0x00, name.len() as u8];
            b.extend_from_slice(name.as_bytes());
            b.push(value.len() as u8);
            b.extend_from_slice(value.as_bytes());
            b
        }
        let mut req2 = req.clone();
        let mut b = vec![0x82, 0x87, 0x84];
        b.extend(lit(":authority", &format!("second{id}.example")));
        b.extend(lit("user-agent", "second-stream/1.0"));
        req2.extend(frame(1, 0x05, 3, &b));
        let mut res2 = frame(4, 0, 0, &[]);
        let mut first = vec![0x8d]; // :status 404
        first.extend(lit("server", "answers-stream-3-first"));
        first.extend(lit("x-conn-id", &id.to_string()));
        res2.extend(frame(1, 0x04, 3, &first));
        let mut second = vec![0x88]; // :status 200
        second.extend(lit("server", "stream-1-later"));
        res2.extend(frame(1, 0x04, 1, &second));
        res2.extend(frame(0, 0x01, 1, b"body of stream 1"));
        (req2, res2)
    } else {
        (req, res)
    };
    let (rq, rs) = if h2 { (head_end_h2(&req, true), head_end_h2(&res, false)) } else { (head_end_h1(&req), head_end_h1(&res)) };
    let v6 = r.chance(1, 5);
    Exchange {
        ep: scenario::ep_for(r, id, v6),
        link: if r.chance(1, 5) { Link::RawIp } else { Link::Ethernet },
        req,
        res,
        req_head_end: rq,
        res_head_end: rs,
        h2,
    }
}

fn segs_of(stream: &[u8], cuts: &[usize], from_client: bool) -> Vec<DataSeg> {
    let mut out = Vec::new();
    let mut off = 0usize;
    for part in pkt::split_at(stream, cuts) {
        out.push(DataSeg { from_client, offset: off, bytes: part.to_vec() });
        off += part.len();
    }
    out
}

fn covered_prefix(delivered: &[(usize, usize)]) -> usize {
    let mut v: Vec<(usize, usize)> = delivered.to_vec();
    v.sort();
    let mut p = 0usize;
    for (o, l) in v {
        if o > p {
            break;
        }
        p = p.max(o + l);
    }
    p
}

pub struct Outcome {
    pub reqs: Vec<String>,
    pub ress: Vec<String>,
    /// (kind, frame index, covered prefix, head end) for reports issued before the head was covered
    pub premature: Vec<String>,
}

/// Where the server's SYN+ACK is in the capture: in its place, not at all (one-directional loss,
/// asymmetric routing), or only after some of the server's data segments have already arrived.
#[derive(Clone, Copy, Debug, PartialEq)]
pub enum SynAck {
    Seen,
    Missing,
    AfterServerSegments(usize),
}

/// Deliver SYN, SYN+ACK, ACK and then the data segments in the given order.
pub fn deliver(which: Which, ex: &Exchange, c_isn: u32, s_isn: u32, order: &[DataSeg]) -> Result<Outcome, String> {
    deliver_with(which, ex, c_isn, s_isn, order, SynAck::Seen)
}

pub fn deliver_with(which: Which, ex: &Exchange, c_isn: u32, s_isn: u32, order: &[DataSeg], synack: SynAck) -> Result<Outcome, String> {
    let mut runner = Runner::new(which, 16, false);
    let mut s = Script::new(ex.ep.clone(), ex.link, c_isn, s_isn);
    s.handshake();
    let mut t = scenario::T0;
    let mut out = Outcome { reqs: vec![], ress: vec![], premature: vec![] };
    let hs = s.frames.clone();
    let late_synack = if synack == SynAck::Seen { None } else { hs.get(1).cloned() };
    let mut server_segs_seen = 0usize;
    for (k, f) in hs.into_iter().enumerate() {
        if k == 1 && synack != SynAck::Seen {
            continue;
        }
        t += 1;
        let lines = runner.feed(t, &f)?;
        for l in lines {
            if l.starts_with("httpreq") {
                out.reqs.push(l);
            } else if l.starts_with("httpres") {
                out.ress.push(l);
            }
        }
    }
    let mut del_c: Vec<(usize, usize)> = Vec::new();
    let mut del_s: Vec<(usize, usize)> = Vec::new();
    for (i, d) in order.iter().enumerate() {
        t += 1;
        let (seq, ack) = if d.from_client {
            (c_isn.wrapping_add(1).wrapping_add(d.offset as u32), s_isn.wrapping_add(1))
        } else {
            (s_isn.wrapping_add(1).wrapping_add(d.offset as u32), c_isn.wrapping_add(1))
        };
        let f = s.seg(d.from_client, seq, ack, flags::ACK | flags::PSH, vec![], &d.bytes);
        if d.from_client {
            del_c.push((d.offset, d.bytes.len()));
        } else {
            del_s.push((d.offset, d.bytes.len()));
            if synack == SynAck::AfterServerSegments(server_segs_seen) {
                if let Some(sa) = &late_synack {
                    // the late SYN+ACK reports nothing HTTP
                    let _ = runner.feed(t, sa)?;
                    t += 1;
                }
            }
            server_segs_seen += 1;
        }
        let lines = runner.feed(t, &f)?;
        for l in lines {
            if l.starts_with("httpreq") {
                let cov = covered_prefix(&del_c);
                if cov < ex.req_head_end {
                    out.premature.push(format!("request reported at data segment {i} with contiguous prefix {cov} < head end {}", ex.req_head_end));
                }
                out.reqs.push(l);
            } else if l.starts_with("httpres") {
                let cov = covered_prefix(&del_s);
                if cov < ex.res_head_end {
                    out.premature.push(format!("response reported at data segment {i} with contiguous prefix {cov} < head end {}", ex.res_head_end));
                }
                out.ress.push(l);
            }
        }
    }
    Ok(out)
}

/// The HTTP analyzer's parallel mode: the same delivery through the worker pool that
/// `HuginnNetHttp::with_config` + `init_pool` builds (2..8 workers), one frame at a time, each
/// awaited at the worker's `WorkerProcessed` point.  Both directions of the connection must reach
/// the same reassembly state whatever the worker count, so the pool has to report exactly the
/// baseline's request and response.
pub struct PoolLane {
    h: crate::pool::Handle,
    queued: u64,
    pub workers: usize,
    pub used: u64,
}

impl PoolLane {
    pub fn new(r: &mut Rng) -> Option<PoolLane> {
        let workers = 2 + r.usize(7);
        let cfg = crate::pool::PoolCfg { workers, queue: 16, batch: *r.pick(&[1usize, 4, 32]), timeout_ms: 1, max_conn: 64, with_db: false };
        crate::pool::reset_log(0, 0);
        let h = if r.chance(1, 2) {
            crate::pool::Handle::new_via_analyzer(crate::pool::PoolKind::Http, &cfg, crate::pool::Filters::none())
        } else {
            crate::pool::Handle::new(crate::pool::PoolKind::Http, &cfg, crate::pool::Filters::none())
        };
        h.ok().map(|h| PoolLane { h, queued: 0, workers, used: 0 })
    }
    /// None: inconclusive (frame not queued / pool stalled)
    fn deliver(&mut self, ex: &Exchange, c_isn: u32, s_isn: u32, order: &[DataSeg]) -> Option<(Vec<String>, Vec<String>)> {
        let mut s = Script::new(ex.ep.clone(), ex.link, c_isn, s_isn);
        s.handshake();
        let mut frames = s.frames.clone();
        for d in order {
            let (seq, ack) = if d.from_client {
                (c_isn.wrapping_add(1).wrapping_add(d.offset as u32), s_isn.wrapping_add(1))
            } else {
                (s_isn.wrapping_add(1).wrapping_add(d.offset as u32), c_isn.wrapping_add(1))
            };
            frames.push(s.seg(d.from_client, seq, ack, flags::ACK | flags::PSH, vec![], &d.bytes));
        }
        let _ = self.h.drain_results();
        for f in frames {
            if !self.h.dispatch(f) {
                return None;
            }
            self.queued += 1;
            if self.h.wait_drain(self.queued, std::time::Duration::from_secs(30)) != crate::pool::Drain::Complete {
                // a frame that never reaches the processed point: the comparison below reports what is missing
                self.queued = crate::pool::log().processed.load(std::sync::atomic::Ordering::SeqCst);
            }
        }
        self.used += 1;
        let mut reqs = Vec::new();
        let mut ress = Vec::new();
        for l in self.h.drain_results().into_iter().flatten() {
            if l.starts_with("httpreq") {
                reqs.push(l);
            } else if l.starts_with("httpres") {
                ress.push(l);
            }
        }
        Some((reqs, ress))
    }
    pub fn shutdown(&self) {
        self.h.shutdown();
    }
}

fn judge_pool(ctx: &mut Ctx, lane: &mut PoolLane, j: &Judge, tag: &str, c_isn: u32, s_isn: u32, order: &[DataSeg]) {
    let started = std::time::Instant::now();
    let Some((reqs, ress)) = lane.deliver(j.ex, c_isn, s_isn, order) else {
        ctx.inconclusive("pool lane: a frame was not queued");
        return;
    };
    if started.elapsed().as_secs() >= 5 {
        ctx.inconclusive("pool lane: delivery exceeded 5 s of wall time");
        return;
    }
    let ok = reqs == j.base.reqs && ress == j.base.ress;
    ctx.judge(ok, &[], "HTTP worker pool: reported request/response depends on segmentation, sequence origin, arrival order or worker count", || {
        json!({
            "case": tag, "workers": lane.workers, "lane_deliveries_before": lane.used, "pool_stats": format!("{:?}", lane.h.stats()),
            "frames_queued": lane.queued, "frames_processed": crate::pool::log().processed.load(std::sync::atomic::Ordering::SeqCst), "endpoints": j.ex.ep.key(), "http2": j.ex.h2, "client_isn": c_isn, "server_isn": s_isn,
            "delivery": order.iter().map(|d| json!({"dir": if d.from_client {"c"} else {"s"}, "offset": d.offset, "len": d.bytes.len()})).collect::<Vec<_>>(),
            "request_hex": hex(&j.ex.req), "response_hex": hex(&j.ex.res),
            "expected_requests": j.base.reqs, "actual_requests": reqs, "expected_responses": j.base.ress, "actual_responses": ress,
        })
    });
    let same_host = j.ex.ep.client == j.ex.ep.server;
    ctx.bucket(&format!("pool/{tag}/w{}/{}{}", lane.workers, if j.ex.h2 { "h2" } else { "h1" }, if same_host { "/same-host" } else { "" }));
}

fn isn_choices(r: &mut Rng, len: usize) -> Vec<u32> {
    let mut v = vec![0u32, 1, 1000, 0x7fff_ffff, 0x8000_0000, r.u32()];
    for _ in 0..3 {
        v.push(0u32.wrapping_sub(r.below(len as u64 + 3) as u32));
    }
    v.push(0u32.wrapping_sub(1));
    v.push(0u32.wrapping_sub(len as u32));
    v.push(0x8000_0000u32.wrapping_sub(r.below(len as u64 + 2) as u32));
    v
}

fn permutations(n: usize) -> Vec<Vec<usize>> {
    fn rec(cur: &mut Vec<usize>, used: &mut Vec<bool>, n: usize, out: &mut Vec<Vec<usize>>) {
        if cur.len() == n {
            out.push(cur.clone());
            return;
        }
        for i in 0..n {
            if !used[i] {
                used[i] = true;
                cur.push(i);
                rec(cur, used, n, out);
                cur.pop();
                used[i] = false;
            }
        }
    }
    let mut out = Vec::new();
    rec(&mut Vec::new(), &mut vec![false; n], n, &mut out);
    out
}

struct Judge<'a> {
    ex: &'a Exchange,
    base: &'a Outcome,
    which: Which,
}

fn judge(ctx: &mut Ctx, j: &Judge, tag: &str, c_isn: u32, s_isn: u32, order: &[DataSeg]) {
    judge_with(ctx, j, tag, c_isn, s_isn, order, SynAck::Seen)
}

fn judge_with(ctx: &mut Ctx, j: &Judge, tag: &str, c_isn: u32, s_isn: u32, order: &[DataSeg], synack: SynAck) {
    let got = match deliver_with(j.which, j.ex, c_isn, s_isn, order, synack) {
        Ok(g) => g,
        Err(p) => {
            ctx.judge(false, &[], "panic during HTTP stream reassembly", || json!({"panic": p, "case": tag}));
            return;
        }
    };
    let ok = got.reqs == j.base.reqs && got.ress == j.base.ress && got.premature.is_empty();
    ctx.judge(ok, &[], "reported request/response depends on segmentation, sequence origin or arrival order", || {
        json!({
            "case": tag, "analyzer": format!("{:?}", j.which), "endpoints": j.ex.ep.key(), "http2": j.ex.h2,
            "client_isn": c_isn, "server_isn": s_isn, "syn_ack": format!("{synack:?}"),
            "delivery": order.iter().map(|d| json!({"dir": if d.from_client {"c"} else {"s"}, "offset": d.offset, "len": d.bytes.len()})).collect::<Vec<_>>(),
            "request_hex": hex(&j.ex.req), "response_hex": hex(&j.ex.res),
            "expected_requests": j.base.reqs, "actual_requests": got.reqs,
            "expected_responses": j.base.ress, "actual_responses": got.ress,
            "premature": got.premature,
        })
    });
    let wrap_c = (c_isn as u64 + 1 + j.ex.req.len() as u64) > u32::MAX as u64;
    let wrap_s = (s_isn as u64 + 1 + j.ex.res.len() as u64) > u32::MAX as u64;
    let inorder = order.windows(2).all(|w| w[0].from_client != w[1].from_client || w[0].offset < w[1].offset);
    ctx.bucket(&format!(
        "{tag}/{:?}/{}/segs{}/{}{}{}",
        j.which,
        if j.ex.h2 { "h2" } else { "h1" },
        order.len().min(9),
        if inorder { "inorder" } else { "reordered" },
        if wrap_c { "/cwrap" } else { "" },
        if wrap_s { "/swrap" } else { "" }
    ));
}

pub fn run(ctx: &mut Ctx) {
    crate::pool::install_hooks();
    let n = ctx.scale(3_200, 100_000, 2);
    let mut lane: Option<PoolLane> = None;
    for e in 0..n {
        if !ctx.mine(e) {
            continue;
        }
        let mut r = ctx.rng_global(9, e);
        let ex = gen_exchange(&mut r, e);
        let which = if e % 4 == 3 { Which::Unified } else { Which::Http };
        let base_order: Vec<DataSeg> = segs_of(&ex.req, &[], true).into_iter().chain(segs_of(&ex.res, &[], false)).collect();
        let base = match deliver(which, &ex, 1000, 5000, &base_order) {
            Ok(b) => b,
            Err(p) => {
                ctx.judge(false, &[], "panic during baseline delivery", || json!({"panic": p}));
                continue;
            }
        };
        // the baseline itself must report exactly one request and one response
        let base_ok = base.reqs.len() == 1 && base.ress.len() == 1 && base.premature.is_empty();
        ctx.judge(base_ok, &[], "in-order single-segment delivery does not report exactly one request and one response", || {
            json!({"request_hex": hex(&ex.req), "response_hex": hex(&ex.res), "requests": base.reqs, "responses": base.ress, "http2": ex.h2})
        });
        if !base_ok {
            continue;
        }
        if ctx.want_sample() {
            ctx.sample(json!({"exchange": e, "http2": ex.h2, "request_len": ex.req.len(), "response_len": ex.res.len(), "baseline_request": base.reqs[0]}));
        }
        let j = Judge { ex: &ex, base: &base, which };
        let isns = isn_choices(&mut r, ex.req.len().max(ex.res.len()));

        // A: every 2-cut of the request (strided in quick) in order and swapped, ISNs rotated
        let step = if ctx.quick() { 1 + ex.req.len() / 40 } else { 1 };
        let mut k = 0usize;
        let mut cut = 1;
        while cut < ex.req.len() {
            let cs = segs_of(&ex.req, &[cut], true);
            let ss = segs_of(&ex.res, &[], false);
            let ci = isns[k % isns.len()];
            let si = isns[(k / 2 + 3) % isns.len()];
            k += 1;
            let mut o: Vec<DataSeg> = cs.iter().cloned().chain(ss.iter().cloned()).collect();
            judge(ctx, &j, "req-2cut", ci, si, &o);
            o.swap(0, 1);
            judge(ctx, &j, "req-2cut-swapped", ci, si, &o);
            cut += step;
        }
        // same for the response
        let step = if ctx.quick() { 1 + ex.res.len() / 40 } else { 1 };
        let mut cut = 1;
        while cut < ex.res.len() {
            let cs = segs_of(&ex.req, &[], true);
            let ss = segs_of(&ex.res, &[cut], false);
            let ci = isns[k % isns.len()];
            let si = isns[(k / 2 + 1) % isns.len()];
            k += 1;
            let o: Vec<DataSeg> = vec![ss[1].clone(), cs[0].clone(), ss[0].clone()];
            judge(ctx, &j, "res-2cut-reordered", ci, si, &o);
            cut += step;
        }
        if !ctx.quick() {
            ctx.exhaustive("every 2-cut position of each generated request and response");
        }

        // B: every ISN within one stream length of wrap-around, both directions, random 3-partition
        let span = ex.req.len().max(ex.res.len()) + 2;
        let bstep = if ctx.quick() { 1 + span / 48 } else { 1 };
        let mut kk = 0usize;
        while kk <= span {
            let ci = 0u32.wrapping_sub(kk as u32);
            let si = 0u32.wrapping_sub(((kk * 7) % (span + 1)) as u32);
            let cc = rand_cuts(&mut r, ex.req.len(), 2);
            let sc = rand_cuts(&mut r, ex.res.len(), 2);
            let mut o: Vec<DataSeg> = segs_of(&ex.req, &cc, true).into_iter().chain(segs_of(&ex.res, &sc, false)).collect();
            judge(ctx, &j, "isn-near-wrap", ci, si, &o);
            r.shuffle(&mut o);
            judge(ctx, &j, "isn-near-wrap-shuffled", ci, si, &o);
            kk += bstep;
        }

        // C: all permutations of up to 5 client segments (response single, placed at a random position)
        for parts in 2..=(if ctx.quick() { 4 } else { 5 }) {
            let cc = rand_cuts(&mut r, ex.req.len(), parts - 1);
            let cs = segs_of(&ex.req, &cc, true);
            let ss = segs_of(&ex.res, &[], false);
            for (pi, perm) in permutations(cs.len()).into_iter().enumerate() {
                let mut o: Vec<DataSeg> = perm.iter().map(|i| cs[*i].clone()).collect();
                let pos = r.usize(o.len() + 1);
                o.insert(pos, ss[0].clone());
                let ci = isns[pi % isns.len()];
                judge(ctx, &j, "client-permutation", ci, isns[(pi + 5) % isns.len()], &o);
            }
        }

        // D: both directions partitioned, random order (fully random and bounded displacement)
        let dn = ctx.scale(12, 60, 2);
        for d in 0..dn {
            let cn = 1 + r.usize(6);
            let sn = 1 + r.usize(6);
            let cc = rand_cuts(&mut r, ex.req.len(), cn);
            let sc = rand_cuts(&mut r, ex.res.len(), sn);
            let mut o: Vec<DataSeg> = segs_of(&ex.req, &cc, true).into_iter().chain(segs_of(&ex.res, &sc, false)).collect();
            if d % 2 == 0 {
                r.shuffle(&mut o);
            } else {
                // bounded displacement: swap neighbours
                for i in 0..o.len().saturating_sub(1) {
                    if r.chance(1, 2) {
                        o.swap(i, i + 1);
                    }
                }
            }
            let ci = *r.pick(&isns);
            let si = *r.pick(&isns);
            judge(ctx, &j, "both-directions-random-order", ci, si, &o);
            // E: the same delivery through the HTTP worker pool (HTTP analyzer's exchanges only;
            // the lane's pool serves 64 exchanges, then one with another worker count is built)
            if which == Which::Http && !ctx.miri() && d < ctx.scale(3, 6, 0) && ctx.rep.violation_count <= 12 {
                if lane.as_ref().map(|l| l.used >= 64).unwrap_or(true) {
                    if let Some(l) = lane.take() {
                        l.shutdown();
                    }
                    lane = PoolLane::new(&mut r);
                }
                if let Some(l) = lane.as_mut() {
                    judge_pool(ctx, l, &j, if d % 2 == 0 { "random-order" } else { "bounded-displacement" }, ci, si, &o);
                }
            }
        }

        // F: retransmissions and re-segmented overlaps: some segments are delivered twice, and
        // further segments repeat byte ranges that other segments (will) carry -- always with the
        // stream's own bytes.  The bytes of each direction are unchanged, so is the expectation.
        let fnn = ctx.scale(8, 40, 1);
        for d in 0..fnn {
            let (kc, ks) = (1 + r.usize(4), 1 + r.usize(4));
            let cc = rand_cuts(&mut r, ex.req.len(), kc);
            let sc = rand_cuts(&mut r, ex.res.len(), ks);
            let mut o: Vec<DataSeg> = segs_of(&ex.req, &cc, true).into_iter().chain(segs_of(&ex.res, &sc, false)).collect();
            let dups = r.usize(4);
            for _ in 0..dups {
                let k = r.usize(o.len());
                let seg = o[k].clone();
                let pos = r.usize(o.len() + 1);
                o.insert(pos, seg);
            }
            let overlaps = r.usize(4);
            for _ in 0..overlaps {
                let from_client = r.chance(1, 2);
                let stream = if from_client { &ex.req } else { &ex.res };
                if stream.len() < 2 {
                    continue;
                }
                let a = r.usize(stream.len() - 1);
                let b = a + 1 + r.usize(stream.len() - a - 1);
                let pos = r.usize(o.len() + 1);
                o.insert(pos, DataSeg { from_client, offset: a, bytes: stream[a..b].to_vec() });
            }
            if dups + overlaps == 0 {
                let seg = o[0].clone();
                o.push(seg);
            }
            if d % 3 == 2 {
                r.shuffle(&mut o);
            }
            let ci = *r.pick(&isns);
            let si = *r.pick(&isns);
            judge(ctx, &j, if d % 3 == 2 { "retransmit-overlap-shuffled" } else { "retransmit-overlap" }, ci, si, &o);
        }

        // G: the server's SYN+ACK is not in the capture, or arrives only after some of the
        // server's data ("every connection opened by a SYN"): the server's stream then has to be
        // anchored by its serially earliest segment, whichever arrives first
        // (HTTP/1.x exchanges only: an HTTP/2 server stream cut at a frame boundary legitimately
        // reads as a stream of its own from there, so without the SYN+ACK "its head" is not
        // defined by the bytes alone)
        let gn = if ex.h2 { 0 } else { ctx.scale(8, 40, 1) };
        for d in 0..gn {
            let (kc, ks) = (1 + r.usize(3), 2 + r.usize(4));
            let cc = rand_cuts(&mut r, ex.req.len(), kc);
            let sc = rand_cuts(&mut r, ex.res.len(), ks);
            let cs = segs_of(&ex.req, &cc, true);
            let mut ss = segs_of(&ex.res, &sc, false);
            match d % 3 {
                0 => {}
                1 => r.shuffle(&mut ss),
                _ => {
                    if ss.len() > 1 {
                        ss.swap(0, 1);
                    }
                }
            }
            // request first (complete, in order), then the server's segments
            let o: Vec<DataSeg> = cs.into_iter().chain(ss.into_iter()).collect();
            let nserver = o.iter().filter(|x| !x.from_client).count();
            let synack = if d % 2 == 0 { SynAck::Missing } else { SynAck::AfterServerSegments(1 + r.usize(nserver.max(1))) };
            let ci = *r.pick(&isns);
            let si = *r.pick(&isns);
            judge_with(ctx, &j, if synack == SynAck::Missing { "syn-ack-not-captured" } else { "syn-ack-captured-late" }, ci, si, &o, synack);
        }
    }
    if let Some(l) = lane.take() {
        l.shutdown();
    }
    huginn_net_tcp::verif_hooks::clock::clear();
}

fn rand_cuts(r: &mut Rng, len: usize, k: usize) -> Vec<usize> {
    if len < 2 {
        return vec![];
    }
    let mut c: Vec<usize> = (0..k).map(|_| 1 + r.usize(len - 1)).collect();
    c.sort();
    c.dedup();
    c
}

pub fn spec() -> PropSpec {
    PropSpec {
        id: "C09",
        run,
        shards: super::shards_16,
        rule: "seeded HTTP/1.x and HTTP/2 exchanges are delivered to the HTTP (and unified) analyzer after SYN / SYN+ACK under: every 2-cut of request and response (in order, swapped, reordered), every initial sequence number within one stream length of 2^32 for both directions, all permutations of up to 5 client segments, random partitions of both directions in random or bounded-displacement order, and partitions with retransmitted segments and re-segmented overlaps (the stream's own bytes, in order or shuffled); 3..6 of the random deliveries per exchange also go through an HTTP worker pool of 2..8 workers frame by frame; each delivery must report exactly the baseline's request and response (canonical equality, correct direction, once) and never while the delivered segments do not yet cover the contiguous prefix up to the end of the head; a bucket is a distinct (family, analyzer, protocol, segment count, in-order/reordered, client/server wrap) combination",
        assumptions: &[
            "family G (SYN+ACK not captured / captured after 1..n server segments) is run for HTTP/1.x exchanges only: an HTTP/2 server stream cut at a frame boundary reads as a stream of its own from there, so without the SYN+ACK the start of 'its head' is not defined by the bytes",
            "SYN and SYN+ACK are always delivered first (the property's precondition); retransmitted and overlapping segments always repeat the stream's own bytes (conflicting overlaps are not generated); no FIN or RST",
            "HTTP/2 header blocks are carried in a single HEADERS frame with END_HEADERS (CONTINUATION/PADDED framing is C16's subject)",
        ],
        parent_stage: None,
    }
}
