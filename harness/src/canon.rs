//! Canonical, fully-owned renderings of analyzer results (DESIGN §2.4).
//! Run-dependent fields (parsing_time_ns, HashMap iteration order) are excluded.

use huginn_net_db::MatchQualityType;
use huginn_net_http::http_common::HttpHeader;
use huginn_net_http::{HttpAnalysisResult, HttpRequestOutput, HttpResponseOutput};
use huginn_net_http::{ObservableHttpRequest, ObservableHttpResponse};
use huginn_net_tcp::{MTUOutput, SynAckTCPOutput, SynTCPOutput, TcpAnalysisResult, UptimeOutput};
use huginn_net_tls::{ObservableTlsClient, TlsClientOutput};

pub fn quality(q: &MatchQualityType) -> String {
    match q {
        MatchQualityType::Matched(f) => format!("matched({:#010x}={})", f.to_bits(), f),
        MatchQualityType::NotMatched => "not-matched".to_string(),
        MatchQualityType::Disabled => "disabled".to_string(),
    }
}

fn opt(s: &Option<String>) -> String {
    match s {
        Some(v) => format!("Some({v:?})"),
        None => "None".to_string(),
    }
}

pub fn syn(o: &SynTCPOutput) -> String {
    let os = o.os_matched.os.as_ref().map(|os| {
        format!("{}|{}|{}|{}", os.name, opt(&os.family), opt(&os.variant), os.kind)
    });
    format!(
        "syn {}:{}>{}:{} sig={} os={:?} q={}",
        o.source.ip,
        o.source.port,
        o.destination.ip,
        o.destination.port,
        o.sig,
        os,
        quality(&o.os_matched.quality)
    )
}

pub fn syn_ack(o: &SynAckTCPOutput) -> String {
    let os = o.os_matched.os.as_ref().map(|os| {
        format!("{}|{}|{}|{}", os.name, opt(&os.family), opt(&os.variant), os.kind)
    });
    format!(
        "synack {}:{}>{}:{} sig={} os={:?} q={}",
        o.source.ip,
        o.source.port,
        o.destination.ip,
        o.destination.port,
        o.sig,
        os,
        quality(&o.os_matched.quality)
    )
}

pub fn mtu(o: &MTUOutput) -> String {
    format!(
        "mtu {}:{}>{}:{} mtu={} link={:?} q={}",
        o.source.ip,
        o.source.port,
        o.destination.ip,
        o.destination.port,
        o.mtu,
        o.link.link,
        quality(&o.link.quality)
    )
}

pub fn uptime(o: &UptimeOutput) -> String {
    format!(
        "uptime[{}] {}:{}>{}:{} d={} h={} m={} mod={} freq={:#018x}={}",
        o.role,
        o.source.ip,
        o.source.port,
        o.destination.ip,
        o.destination.port,
        o.days,
        o.hours,
        o.min,
        o.up_mod_days,
        o.freq.to_bits(),
        o.freq
    )
}

/// All non-empty parts of a TCP result.
pub fn tcp(r: &TcpAnalysisResult) -> Vec<String> {
    let mut v = Vec::new();
    if let Some(x) = &r.syn {
        v.push(syn(x));
    }
    if let Some(x) = &r.syn_ack {
        v.push(syn_ack(x));
    }
    if let Some(x) = &r.mtu {
        v.push(mtu(x));
    }
    if let Some(x) = &r.client_uptime {
        v.push(uptime(x));
    }
    if let Some(x) = &r.server_uptime {
        v.push(uptime(x));
    }
    v
}

pub fn headers(h: &[HttpHeader]) -> String {
    let mut s = String::new();
    for x in h {
        s.push_str(&format!("[{}|{}|{}|{:?}]", x.name, opt(&x.value), x.position, x.source));
    }
    s
}

pub fn http_req_sig(s: &ObservableHttpRequest) -> String {
    let cookies: Vec<String> = s
        .cookies
        .iter()
        .map(|c| format!("{}={}@{}", c.name, opt(&c.value), c.position))
        .collect();
    format!(
        "sig={} ver={:?} lang={} ua={} method={} uri={} referer={} cookies={:?} headers={}",
        s,
        s.matching.version,
        opt(&s.lang),
        opt(&s.user_agent),
        opt(&s.method),
        opt(&s.uri),
        opt(&s.referer),
        cookies,
        headers(&s.headers)
    )
}

pub fn http_res_sig(s: &ObservableHttpResponse) -> String {
    format!(
        "sig={} ver={:?} status={:?} headers={}",
        s,
        s.matching.version,
        s.status_code,
        headers(&s.headers)
    )
}

pub fn http_req(o: &HttpRequestOutput) -> String {
    let b = o.browser_matched.browser.as_ref().map(|b| {
        format!("{}|{}|{}|{}", b.name, opt(&b.family), opt(&b.variant), b.kind)
    });
    format!(
        "httpreq {}:{}>{}:{} lang={} diag={} browser={:?} q={} {}",
        o.source.ip,
        o.source.port,
        o.destination.ip,
        o.destination.port,
        opt(&o.lang),
        o.diagnosis,
        b,
        quality(&o.browser_matched.quality),
        http_req_sig(&o.sig)
    )
}

pub fn http_res(o: &HttpResponseOutput) -> String {
    let b = o.web_server_matched.web_server.as_ref().map(|b| {
        format!("{}|{}|{}|{}", b.name, opt(&b.family), opt(&b.variant), b.kind)
    });
    format!(
        "httpres {}:{}>{}:{} diag={} server={:?} q={} {}",
        o.source.ip,
        o.source.port,
        o.destination.ip,
        o.destination.port,
        o.diagnosis,
        b,
        quality(&o.web_server_matched.quality),
        http_res_sig(&o.sig)
    )
}

pub fn http(r: &HttpAnalysisResult) -> Vec<String> {
    let mut v = Vec::new();
    if let Some(x) = &r.http_request {
        v.push(http_req(x));
    }
    if let Some(x) = &r.http_response {
        v.push(http_res(x));
    }
    v
}

pub fn tls_sig(s: &ObservableTlsClient) -> String {
    format!(
        "ver={:?} sni={} alpn={} ciphers={:04x?} exts={:04x?} sigalgs={:04x?} curves={:04x?} ja4={}|{}|{}|{}|{} ja4o={}|{}|{}|{}|{}",
        s.version,
        opt(&s.sni),
        opt(&s.alpn),
        s.cipher_suites,
        s.extensions,
        s.signature_algorithms,
        s.elliptic_curves,
        s.ja4.ja4_a,
        s.ja4.ja4_b,
        s.ja4.ja4_c,
        s.ja4.full.value(),
        s.ja4.raw.value(),
        s.ja4_original.ja4_a,
        s.ja4_original.ja4_b,
        s.ja4_original.ja4_c,
        s.ja4_original.full.value(),
        s.ja4_original.raw.value(),
    )
}

pub fn tls(o: &TlsClientOutput) -> String {
    format!(
        "tls {}:{}>{}:{} {}",
        o.source.ip,
        o.source.port,
        o.destination.ip,
        o.destination.port,
        tls_sig(&o.sig)
    )
}

pub fn unified(r: &huginn_net::output::FingerprintResult) -> Vec<String> {
    let mut v = Vec::new();
    if let Some(x) = &r.tcp_syn {
        v.push(syn(x));
    }
    if let Some(x) = &r.tcp_syn_ack {
        v.push(syn_ack(x));
    }
    if let Some(x) = &r.tcp_mtu {
        v.push(mtu(x));
    }
    if let Some(x) = &r.tcp_client_uptime {
        v.push(uptime(x));
    }
    if let Some(x) = &r.tcp_server_uptime {
        v.push(uptime(x));
    }
    if let Some(x) = &r.http_request {
        v.push(http_req(x));
    }
    if let Some(x) = &r.http_response {
        v.push(http_res(x));
    }
    if let Some(x) = &r.tls_client {
        v.push(tls(x));
    }
    v
}

/// The "a:p>b:q" endpoint key embedded in every canonical line (for grouping by connection).
pub fn endpoints_of(line: &str) -> Option<String> {
    let mut it = line.split(' ');
    let _kind = it.next()?;
    it.next().map(|s| s.to_string())
}

/// Direction-independent connection key of a canonical line.
pub fn conn_key_of(line: &str) -> Option<String> {
    let ep = endpoints_of(line)?;
    let (a, b) = ep.split_once('>')?;
    let (x, y) = if a <= b { (a, b) } else { (b, a) };
    Some(format!("{x}<>{y}"))
}
