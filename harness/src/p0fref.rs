//! `ref_p0f_db` — independent line-oriented reader of the p0f v3 fingerprint database text, and
//! independent printers for TCP / HTTP signature values.
//!
//! Written from the p0f README section 5 ("Fingerprint database": `[module:direction]` sections,
//! `label = type:class:name:flavor`, `sys = ...`, `sig = ...`, `;` comments, `classes = ...`,
//! `ua_os = name[=[substring]],...`, `[mtu]` with free-text labels and numeric sigs).  Nothing here
//! calls the library; values are kept as text.

#[derive(Clone, Debug, PartialEq)]
pub struct RefLabel {
    pub generic: bool,
    /// None for "!"
    pub class: Option<String>,
    pub name: String,
    /// None when the flavor field is empty
    pub flavor: Option<String>,
}

pub const TCP_REQUEST: usize = 0;
pub const TCP_RESPONSE: usize = 1;
pub const HTTP_REQUEST: usize = 2;
pub const HTTP_RESPONSE: usize = 3;
pub const TABLE_NAMES: [&str; 4] = ["tcp:request", "tcp:response", "http:request", "http:response"];

#[derive(Clone, Debug, Default, PartialEq)]
pub struct RefDb {
    pub classes: Vec<String>,
    pub ua_os: Vec<(String, Option<String>)>,
    /// the same rules grouped by `ua_os` line
    pub ua_os_lines: Vec<Vec<(String, Option<String>)>>,
    /// (label text, sig value texts)
    pub mtu: Vec<(String, Vec<String>)>,
    /// per table: (label, signature texts) in file order
    pub tables: [Vec<(RefLabel, Vec<String>)>; 4],
}

fn blank(c: char) -> bool {
    c == ' ' || c == '\t'
}

pub fn read_label(v: &str) -> Result<RefLabel, String> {
    // type:class:name:flavor — the flavor is the rest of the line and may contain ':'
    let mut it = v.splitn(4, ':');
    let ty = it.next().ok_or("label: missing type")?;
    let class = it.next().ok_or("label: missing class")?;
    let name = it.next().ok_or("label: missing name")?;
    let flavor = it.next().ok_or("label: missing flavor")?;
    let generic = match ty {
        "s" => false,
        "g" => true,
        _ => return Err(format!("label: bad type {ty:?}")),
    };
    Ok(RefLabel {
        generic,
        class: if class == "!" { None } else { Some(class.to_string()) },
        name: name.to_string(),
        flavor: if flavor.is_empty() { None } else { Some(flavor.to_string()) },
    })
}

pub fn read_ua_os(v: &str) -> Result<Vec<(String, Option<String>)>, String> {
    let mut out = Vec::new();
    let mut rest = v;
    loop {
        // name: up to ',' or '=' ; optional =[substring]
        let end = rest.find(|c| c == ',' || c == '=').unwrap_or(rest.len());
        let name = &rest[..end];
        if name.is_empty() {
            return Err("ua_os: empty name".to_string());
        }
        rest = &rest[end..];
        let mut sub = None;
        if let Some(r) = rest.strip_prefix('=') {
            let r = r.strip_prefix('[').ok_or("ua_os: missing '[' after '='")?;
            let close = r.find(']').ok_or("ua_os: missing ']'")?;
            sub = Some(r[..close].to_string());
            rest = &r[close + 1..];
        }
        out.push((name.to_string(), sub));
        if rest.is_empty() {
            return Ok(out);
        }
        rest = rest.strip_prefix(',').ok_or("ua_os: junk after entry")?;
    }
}

pub fn read_db(text: &str) -> Result<RefDb, String> {
    let mut db = RefDb::default();
    // Some(table index) | mtu
    #[derive(Clone, Copy, PartialEq)]
    enum Sect {
        None,
        Mtu,
        Table(usize),
    }
    let mut sect = Sect::None;
    // has a label line been seen since the last section header?
    let mut have_label = false;
    for (ln, raw) in text.split('\n').enumerate() {
        let line = raw.strip_suffix('\r').unwrap_or(raw).trim_matches(blank);
        if line.is_empty() || line.starts_with(';') {
            continue;
        }
        if line.starts_with('[') {
            let inner = line
                .strip_prefix('[')
                .and_then(|l| l.strip_suffix(']'))
                .ok_or(format!("line {}: malformed section header", ln + 1))?;
            sect = if inner == "mtu" {
                Sect::Mtu
            } else if let Some(i) = TABLE_NAMES.iter().position(|n| *n == inner) {
                Sect::Table(i)
            } else {
                return Err(format!("line {}: unknown section {inner:?}", ln + 1));
            };
            have_label = false;
            continue;
        }
        let key_end = line.find(|c: char| !(c.is_ascii_alphanumeric() || c == '_')).unwrap_or(line.len());
        let key = &line[..key_end];
        let after = line[key_end..].trim_start_matches(blank);
        let value = after
            .strip_prefix('=')
            .ok_or(format!("line {}: expected '=' after {key:?}", ln + 1))?
            .trim_start_matches(blank);
        match key {
            "classes" => {
                for c in value.split(',') {
                    db.classes.push(c.to_string());
                }
                continue;
            }
            "ua_os" => {
                let rules = read_ua_os(value).map_err(|e| format!("line {}: {e}", ln + 1))?;
                db.ua_os.extend(rules.iter().cloned());
                db.ua_os_lines.push(rules);
                continue;
            }
            _ => {}
        }
        match (sect, key) {
            (Sect::None, _) => return Err(format!("line {}: content before any section", ln + 1)),
            (Sect::Mtu, "label") => {
                db.mtu.push((value.to_string(), Vec::new()));
                have_label = true;
            }
            (Sect::Mtu, "sig") => {
                if !have_label {
                    return Err(format!("line {}: sig before label", ln + 1));
                }
                db.mtu.last_mut().unwrap().1.push(value.to_string());
            }
            (Sect::Table(t), "label") => {
                let l = read_label(value).map_err(|e| format!("line {}: {e}", ln + 1))?;
                db.tables[t].push((l, Vec::new()));
                have_label = true;
            }
            (Sect::Table(_), "sys") => {}
            (Sect::Table(t), "sig") => {
                if !have_label {
                    return Err(format!("line {}: sig before label", ln + 1));
                }
                db.tables[t].last_mut().unwrap().1.push(value.to_string());
            }
            (_, k) => return Err(format!("line {}: unknown key {k:?}", ln + 1)),
        }
    }
    Ok(db)
}

// ------------------------------------------------------------------------- reference printers

#[derive(Clone, Debug, PartialEq)]
pub enum RTtl {
    Value(u8),
    Distance(u8, u8),
    Guess(u8),
    Bad(u8),
}
#[derive(Clone, Debug, PartialEq)]
pub enum RWin {
    Mss(u8),
    Mtu(u8),
    Value(u16),
    Mod(u16),
    Any,
}
#[derive(Clone, Debug, PartialEq)]
pub enum ROpt {
    Eol(u8),
    Nop,
    Mss,
    Ws,
    Sok,
    Sack,
    Ts,
    Unknown(u8),
}
/// the 17 quirk tokens of the p0f README in the README's order
pub const QUIRKS: [&str; 17] = [
    "df", "id+", "id-", "ecn", "0+", "flow", "seq-", "ack+", "ack-", "uptr+", "urgf+", "pushf+", "ts1-", "ts2+", "opt+", "exws", "bad",
];

#[derive(Clone, Debug, PartialEq)]
pub struct RTcp {
    /// '4', '6', '*'
    pub ver: char,
    pub ttl: RTtl,
    pub olen: u8,
    pub mss: Option<u16>,
    pub win: RWin,
    pub scale: Option<u8>,
    pub olayout: Vec<ROpt>,
    /// indices into QUIRKS
    pub quirks: Vec<usize>,
    /// '0', '+', '*'
    pub pclass: char,
}

pub fn print_ttl(t: &RTtl) -> String {
    match t {
        RTtl::Value(v) => format!("{v}"),
        RTtl::Distance(v, d) => format!("{v}+{d}"),
        RTtl::Guess(v) => format!("{v}+?"),
        RTtl::Bad(v) => format!("{v}-"),
    }
}
pub fn print_win(w: &RWin) -> String {
    match w {
        RWin::Mss(n) => format!("mss*{n}"),
        RWin::Mtu(n) => format!("mtu*{n}"),
        RWin::Value(n) => format!("{n}"),
        RWin::Mod(n) => format!("%{n}"),
        RWin::Any => "*".to_string(),
    }
}
pub fn print_opt(o: &ROpt) -> String {
    match o {
        ROpt::Eol(n) => format!("eol+{n}"),
        ROpt::Nop => "nop".into(),
        ROpt::Mss => "mss".into(),
        ROpt::Ws => "ws".into(),
        ROpt::Sok => "sok".into(),
        ROpt::Sack => "sack".into(),
        ROpt::Ts => "ts".into(),
        ROpt::Unknown(n) => format!("?{n}"),
    }
}
/// sig = ver:ittl:olen:mss:wsize,scale:olayout:quirks:pclass
pub fn print_tcp(s: &RTcp) -> String {
    format!(
        "{}:{}:{}:{}:{},{}:{}:{}:{}",
        s.ver,
        print_ttl(&s.ttl),
        s.olen,
        s.mss.map(|m| m.to_string()).unwrap_or_else(|| "*".into()),
        print_win(&s.win),
        s.scale.map(|m| m.to_string()).unwrap_or_else(|| "*".into()),
        s.olayout.iter().map(print_opt).collect::<Vec<_>>().join(","),
        s.quirks.iter().map(|q| QUIRKS[*q]).collect::<Vec<_>>().join(","),
        s.pclass
    )
}

#[derive(Clone, Debug, PartialEq)]
pub struct RHdr {
    pub optional: bool,
    pub name: String,
    pub value: Option<String>,
}
#[derive(Clone, Debug, PartialEq)]
pub struct RHttp {
    /// '0', '1', '*'
    pub ver: char,
    pub horder: Vec<RHdr>,
    pub habsent: Vec<RHdr>,
    pub expsw: String,
}
pub fn print_hdr(h: &RHdr) -> String {
    format!(
        "{}{}{}",
        if h.optional { "?" } else { "" },
        h.name,
        h.value.as_ref().map(|v| format!("=[{v}]")).unwrap_or_default()
    )
}
/// sig = ver:horder:habsent:expsw
pub fn print_http(s: &RHttp) -> String {
    format!(
        "{}:{}:{}:{}",
        s.ver,
        s.horder.iter().map(print_hdr).collect::<Vec<_>>().join(","),
        s.habsent.iter().map(print_hdr).collect::<Vec<_>>().join(","),
        s.expsw
    )
}
