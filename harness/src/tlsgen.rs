//! TLS ClientHello *model*, byte-level generator, and the JA4 reference computed from the MODEL.
//!
//! Three independent parts:
//!  1. `Hello` / `Ext`  — a structural model of a ClientHello and its encoder (RFC 5246 §7.4.1.2,
//!     RFC 8446 §4.1.2, RFC 6066 §3, RFC 7301 §3.1, RFC 8701).  Nothing here parses bytes.
//!  2. `ref_ja4`        — the FoxIO JA4 text applied to the model (never to bytes, never through
//!     the library); hashes through `crate::sha256`.
//!  3. `Obs`            — a fully-owned rendering of what the library reported (the only place
//!     in this file that names library types), plus seeded model builders shared by C04 and C08.

use crate::rt::Rng;
use crate::sha256;

// ------------------------------------------------------------------------------------- GREASE

/// RFC 8701: 0x0a0a, 0x1a1a, ... 0xfafa.
pub const GREASE: [u16; 16] = [
    0x0a0a, 0x1a1a, 0x2a2a, 0x3a3a, 0x4a4a, 0x5a5a, 0x6a6a, 0x7a7a, 0x8a8a, 0x9a9a, 0xaaaa, 0xbaba, 0xcaca, 0xdada,
    0xeaea, 0xfafa,
];

pub fn is_grease(v: u16) -> bool {
    (v & 0x0f0f) == 0x0a0a && (v >> 8) == (v & 0x00ff)
}

/// 0x?a?a with two *different* bytes: looks like GREASE to a sloppy mask test, but is not one of the
/// sixteen reserved values.
pub fn is_near_grease(v: u16) -> bool {
    (v & 0x0f0f) == 0x0a0a && !is_grease(v)
}

// -------------------------------------------------------------------------------------- model

#[derive(Clone, Debug, PartialEq, Eq)]
pub enum Ext {
    /// server_name: (name_type, name) entries
    Sni(Vec<(u8, Vec<u8>)>),
    /// application_layer_protocol_negotiation: protocol names
    Alpn(Vec<Vec<u8>>),
    SupportedVersions(Vec<u16>),
    SigAlgs(Vec<u16>),
    Groups(Vec<u16>),
    EcPointFormats(Vec<u8>),
    /// any other type with the given body
    Raw(u16, Vec<u8>),
    /// GREASE extension (type must be one of the 16 values)
    Grease(u16, Vec<u8>),
}

impl Ext {
    pub fn typ(&self) -> u16 {
        match self {
            Ext::Sni(_) => 0x0000,
            Ext::Alpn(_) => 0x0010,
            Ext::SupportedVersions(_) => 0x002b,
            Ext::SigAlgs(_) => 0x000d,
            Ext::Groups(_) => 0x000a,
            Ext::EcPointFormats(_) => 0x000b,
            Ext::Raw(t, _) => *t,
            Ext::Grease(t, _) => *t,
        }
    }
    pub fn body(&self) -> Vec<u8> {
        let mut b = Vec::new();
        match self {
            Ext::Sni(names) => {
                let mut l = Vec::new();
                for (t, n) in names {
                    l.push(*t);
                    l.extend_from_slice(&(n.len() as u16).to_be_bytes());
                    l.extend_from_slice(n);
                }
                b.extend_from_slice(&(l.len() as u16).to_be_bytes());
                b.extend_from_slice(&l);
            }
            Ext::Alpn(protos) => {
                let mut l = Vec::new();
                for p in protos {
                    l.push(p.len() as u8);
                    l.extend_from_slice(p);
                }
                b.extend_from_slice(&(l.len() as u16).to_be_bytes());
                b.extend_from_slice(&l);
            }
            Ext::SupportedVersions(vs) => {
                b.push((vs.len() * 2) as u8);
                for v in vs {
                    b.extend_from_slice(&v.to_be_bytes());
                }
            }
            Ext::SigAlgs(vs) | Ext::Groups(vs) => {
                b.extend_from_slice(&((vs.len() * 2) as u16).to_be_bytes());
                for v in vs {
                    b.extend_from_slice(&v.to_be_bytes());
                }
            }
            Ext::EcPointFormats(f) => {
                b.push(f.len() as u8);
                b.extend_from_slice(f);
            }
            Ext::Raw(_, body) | Ext::Grease(_, body) => b.extend_from_slice(body),
        }
        b
    }
    pub fn bytes(&self) -> Vec<u8> {
        let body = self.body();
        let mut b = Vec::with_capacity(4 + body.len());
        b.extend_from_slice(&self.typ().to_be_bytes());
        b.extend_from_slice(&(body.len() as u16).to_be_bytes());
        b.extend_from_slice(&body);
        b
    }
}

#[derive(Clone, Debug, PartialEq, Eq)]
pub struct Hello {
    pub record_version: u16,
    pub legacy_version: u16,
    pub random: [u8; 32],
    pub session_id: Vec<u8>,
    pub ciphers: Vec<u16>,
    pub compression: Vec<u8>,
    /// None = the ClientHello ends after the compression methods (no extensions block)
    pub extensions: Option<Vec<Ext>>,
}

impl Hello {
    pub fn minimal() -> Hello {
        Hello {
            record_version: 0x0301,
            legacy_version: 0x0303,
            random: [0x5a; 32],
            session_id: Vec::new(),
            ciphers: vec![0x1301],
            compression: vec![0],
            extensions: Some(Vec::new()),
        }
    }
    pub fn exts(&self) -> &[Ext] {
        self.extensions.as_deref().unwrap_or(&[])
    }
    pub fn exts_mut(&mut self) -> &mut Vec<Ext> {
        self.extensions.get_or_insert_with(Vec::new)
    }
    /// ClientHello body (without the 4-byte handshake header)
    pub fn body(&self) -> Vec<u8> {
        let mut b = Vec::new();
        b.extend_from_slice(&self.legacy_version.to_be_bytes());
        b.extend_from_slice(&self.random);
        b.push(self.session_id.len() as u8);
        b.extend_from_slice(&self.session_id);
        b.extend_from_slice(&((self.ciphers.len() * 2) as u16).to_be_bytes());
        for c in &self.ciphers {
            b.extend_from_slice(&c.to_be_bytes());
        }
        b.push(self.compression.len() as u8);
        b.extend_from_slice(&self.compression);
        if let Some(exts) = &self.extensions {
            let mut e = Vec::new();
            for x in exts {
                e.extend_from_slice(&x.bytes());
            }
            b.extend_from_slice(&(e.len() as u16).to_be_bytes());
            b.extend_from_slice(&e);
        }
        b
    }
    /// handshake message: type 1, 24-bit length, body
    pub fn handshake(&self) -> Vec<u8> {
        let body = self.body();
        let mut b = Vec::with_capacity(4 + body.len());
        b.push(1);
        b.extend_from_slice(&(body.len() as u32).to_be_bytes()[1..]);
        b.extend_from_slice(&body);
        b
    }
    /// Does the message fit one record whose 16-bit length field can hold it, all inner 16-bit
    /// length fields included?
    pub fn encodable(&self) -> bool {
        let mut ext_total = 0usize;
        for x in self.exts() {
            let bl = x.body().len();
            if bl > 0xffff {
                return false;
            }
            ext_total += 4 + bl;
        }
        ext_total <= 0xffff
            && self.ciphers.len() * 2 <= 0xfffe
            && self.session_id.len() <= 32
            && self.compression.len() <= 255
            && self.handshake().len() <= 0xffff
    }
    /// TLSPlaintext record: type 22, version, 16-bit length, handshake message
    pub fn record(&self) -> Vec<u8> {
        let hs = self.handshake();
        assert!(hs.len() <= 0xffff, "generator: hello does not fit one record");
        let mut b = Vec::with_capacity(5 + hs.len());
        b.push(0x16);
        b.extend_from_slice(&self.record_version.to_be_bytes());
        b.extend_from_slice(&(hs.len() as u16).to_be_bytes());
        b.extend_from_slice(&hs);
        b
    }
    pub fn non_grease_ext_count(&self) -> usize {
        self.exts().iter().filter(|e| !is_grease(e.typ())).count()
    }
    pub fn has_near_grease_ext(&self) -> bool {
        self.exts().iter().any(|e| is_near_grease(e.typ()))
    }
    /// first protocol name of the first ALPN extension, if any
    pub fn first_alpn(&self) -> Option<&Vec<u8>> {
        self.exts().iter().find_map(|e| if let Ext::Alpn(p) = e { p.first() } else { None })
    }
    pub fn has_non_utf8_alpn(&self) -> bool {
        self.first_alpn().map(|p| std::str::from_utf8(p).is_err()).unwrap_or(false)
    }
    pub fn describe(&self) -> String {
        let exts: Vec<String> = self
            .exts()
            .iter()
            .map(|e| match e {
                Ext::Sni(n) => format!("sni{:?}", n.iter().map(|(t, h)| (t, String::from_utf8_lossy(h).to_string())).collect::<Vec<_>>()),
                Ext::Alpn(p) => format!("alpn{:?}", p.iter().map(|x| crate::rt::hex(x)).collect::<Vec<_>>()),
                Ext::SupportedVersions(v) => format!("versions{v:04x?}"),
                Ext::SigAlgs(v) => format!("sigalgs{v:04x?}"),
                Ext::Groups(v) => format!("groups{v:04x?}"),
                Ext::EcPointFormats(v) => format!("ecpf{v:?}"),
                Ext::Raw(t, b) => format!("{t:04x}[{}B]", b.len()),
                Ext::Grease(t, b) => format!("grease:{t:04x}[{}B]", b.len()),
            })
            .collect();
        format!(
            "rec={:04x} legacy={:04x} sid={}B ciphers={:04x?} comp={:?} ext_block={} exts=[{}]",
            self.record_version,
            self.legacy_version,
            self.session_id.len(),
            self.ciphers,
            self.compression,
            self.extensions.is_some(),
            exts.join(" ")
        )
    }
}

// ---------------------------------------------------------------------------------- reference

#[derive(Clone, Debug, PartialEq, Eq)]
pub struct Variant {
    pub a: String,
    pub b: String,
    pub c: String,
    /// a _ hash12(b) _ hash12(c)
    pub full: String,
    /// a _ b _ c
    pub raw: String,
}

#[derive(Clone, Debug)]
pub struct Expected {
    /// two characters
    pub version_code: String,
    /// the 16-bit value the code was derived from
    pub version_value: u16,
    /// is the version unambiguous under the published text (see module doc of c04)?
    pub judge_version: bool,
    pub sni_present: bool,
    /// first host name
    pub sni: Option<Vec<u8>>,
    /// first protocol name of the ALPN extension
    pub alpn: Option<Vec<u8>>,
    pub alpn_chars: String,
    pub judge_alpn: bool,
    /// when the ALPN characters are not judged exactly: the two-character values the published
    /// editions allow (empty = nothing is known)
    pub alpn_alts: Vec<String>,
    pub ciphers_wire: Vec<u16>,
    pub ciphers_ng: Vec<u16>,
    pub exts_wire: Vec<u16>,
    pub exts_ng: Vec<u16>,
    pub sigalgs_wire: Vec<u16>,
    pub sigalgs_ng: Vec<u16>,
    pub groups_wire: Vec<u16>,
    pub groups_ng: Vec<u16>,
    /// JA4 / JA4_r
    pub sorted: Variant,
    /// JA4_o / JA4_ro
    pub original: Variant,
}

fn hex4_list(v: &[u16]) -> String {
    let mut s = String::with_capacity(v.len() * 5);
    for (i, x) in v.iter().enumerate() {
        if i > 0 {
            s.push(',');
        }
        s.push_str(&format!("{x:04x}"));
    }
    s
}

fn trunc_hash(s: &str) -> String {
    if s.is_empty() {
        "000000000000".to_string()
    } else {
        sha256::hex_prefix(s.as_bytes(), 12)
    }
}

fn version_code(v: u16) -> &'static str {
    match v {
        0x0304 => "13",
        0x0303 => "12",
        0x0302 => "11",
        0x0301 => "10",
        0x0300 => "s3",
        _ => "00",
    }
}

fn two_digits(n: usize) -> String {
    format!("{:02}", n.min(99))
}

pub fn ref_ja4(h: &Hello) -> Expected {
    ref_ja4_opts(h, Dev::default())
}

/// Deviation models of known findings (all false = the specification).
#[derive(Clone, Copy, Default, Debug, PartialEq, Eq)]
pub struct Dev {
    /// extension types 0x?a?a with two different bytes are (wrongly) treated as GREASE
    pub near_grease_ext: bool,
    /// a first ALPN protocol name that is not valid UTF-8 is (wrongly) treated as "no ALPN"
    pub non_utf8_alpn_dropped: bool,
}

pub fn ref_ja4_opts(h: &Hello, dev: Dev) -> Expected {
    let ext_is_grease = |t: u16| is_grease(t) || (dev.near_grease_ext && is_near_grease(t));

    // ---- lists
    let ciphers_wire = h.ciphers.clone();
    let ciphers_ng: Vec<u16> = ciphers_wire.iter().copied().filter(|c| !is_grease(*c)).collect();
    let exts_wire: Vec<u16> = h.exts().iter().map(|e| e.typ()).collect();
    let exts_ng: Vec<u16> = exts_wire.iter().copied().filter(|t| !ext_is_grease(*t)).collect();

    let mut sni_present = false;
    let mut sni = None;
    let mut alpn_ext: Option<&Vec<Vec<u8>>> = None;
    let mut versions: Option<&Vec<u16>> = None;
    let mut sigalgs_wire: Vec<u16> = Vec::new();
    let mut groups_wire: Vec<u16> = Vec::new();
    let (mut seen_sig, mut seen_groups) = (false, false);
    for e in h.exts() {
        match e {
            Ext::Sni(names) if !sni_present => {
                sni_present = true;
                sni = names.first().map(|(_, n)| n.clone());
            }
            Ext::Alpn(p) if alpn_ext.is_none() => alpn_ext = Some(p),
            Ext::SupportedVersions(v) if versions.is_none() => versions = Some(v),
            Ext::SigAlgs(v) if !seen_sig => {
                seen_sig = true;
                sigalgs_wire = v.clone();
            }
            Ext::Groups(v) if !seen_groups => {
                seen_groups = true;
                groups_wire = v.clone();
            }
            _ => {}
        }
    }
    let sigalgs_ng: Vec<u16> = sigalgs_wire.iter().copied().filter(|c| !is_grease(*c)).collect();
    let groups_ng: Vec<u16> = groups_wire.iter().copied().filter(|c| !is_grease(*c)).collect();

    // ---- version
    let (version_value, judge_version) = match versions {
        Some(vs) => {
            let ng: Vec<u16> = vs.iter().copied().filter(|v| !is_grease(*v)).collect();
            match ng.iter().max() {
                // judged whenever every reading of "highest" agrees: the numeric maximum is a
                // version the specification names, or no listed value is one (then the code is
                // 00 -- TLS 1.3 drafts 0x7f12.. included); DTLS / SSL2 codes have characters of
                // their own in some editions and stay unjudged
                Some(m) => {
                    let known = |v: &u16| (0x0300..=0x0304).contains(v);
                    let own_code = |v: &u16| matches!(*v, 0xfeff | 0xfefd | 0xfefc | 0x0002);
                    (*m, known(m) || ng.iter().all(|v| !known(v) && !own_code(v)))
                }
                None => (h.legacy_version, false),
            }
        }
        // SSL 2 (0x0002) has its own code in some editions of the text and its own hello format
        None => (h.legacy_version, h.legacy_version != 0x0002),
    };
    let vcode = version_code(version_value).to_string();

    // ---- ALPN
    if dev.non_utf8_alpn_dropped {
        if let Some(first) = alpn_ext.and_then(|p| p.first()) {
            if std::str::from_utf8(first).is_err() {
                alpn_ext = None;
            }
        }
    }
    let alpn = alpn_ext.and_then(|p| p.first().cloned());
    // first ALPN name of >= 2 bytes with a non-alphanumeric first or last byte: the editions of
    // the specification differ (older: the characters themselves, 9 for a non-ASCII byte; current:
    // first and last character of the hex form of the name), but each of them fixes the value
    let mut alpn_alts: Vec<String> = Vec::new();
    if let Some(first) = alpn_ext.and_then(|p| p.first()) {
        // a name of one character (one byte, or one multi-byte UTF-8 character) has no distinct
        // "last" character: the editions do not say what the second position shows then
        let one_char = std::str::from_utf8(first).map(|t| t.chars().count() < 2).unwrap_or(false);
        if first.len() >= 2 && !one_char {
            let (f, l) = (first[0], first[first.len() - 1]);
            if !(f.is_ascii_alphanumeric() && l.is_ascii_alphanumeric()) {
                let old = |b: u8| if b.is_ascii() { b as char } else { '9' };
                alpn_alts.push(format!("{}{}", old(f), old(l)));
                let hex = format!("{:x}{:x}", f >> 4, l & 0x0f);
                if !alpn_alts.contains(&hex) {
                    alpn_alts.push(hex);
                }
            }
        }
    }
    let (alpn_chars, judge_alpn) = match alpn_ext {
        None => ("00".to_string(), true),
        Some(p) => match p.first() {
            None => ("00".to_string(), false),
            Some(first) => {
                let f = first.first().copied().unwrap_or(b'0');
                let l = first.last().copied().unwrap_or(b'0');
                let strict = first.len() >= 2 && f.is_ascii_alphanumeric() && l.is_ascii_alphanumeric();
                let mut s = String::new();
                s.push(if f.is_ascii() { f as char } else { '9' });
                s.push(if first.len() < 2 {
                    '0'
                } else if l.is_ascii() {
                    l as char
                } else {
                    '9'
                });
                (s, strict)
            }
        },
    };

    // ---- a
    let a = format!(
        "t{}{}{}{}{}",
        vcode,
        if sni_present { 'd' } else { 'i' },
        two_digits(ciphers_ng.len()),
        two_digits(exts_ng.len()),
        alpn_chars
    );

    // ---- b, c
    let sigs = hex4_list(&sigalgs_ng);
    let join_c = |exts: &str| if sigs.is_empty() { exts.to_string() } else { format!("{exts}_{sigs}") };

    let mut sorted_c = ciphers_ng.clone();
    sorted_c.sort_unstable();
    let mut sorted_e: Vec<u16> = exts_ng.iter().copied().filter(|t| *t != 0x0000 && *t != 0x0010).collect();
    sorted_e.sort_unstable();

    let mk = |b: String, c: String| Variant {
        full: format!("{a}_{}_{}", trunc_hash(&b), trunc_hash(&c)),
        raw: format!("{a}_{b}_{c}"),
        a: a.clone(),
        b,
        c,
    };
    let sorted = mk(hex4_list(&sorted_c), join_c(&hex4_list(&sorted_e)));
    let original = mk(hex4_list(&ciphers_ng), join_c(&hex4_list(&exts_ng)));

    Expected {
        version_code: vcode,
        version_value,
        judge_version,
        sni_present,
        sni,
        alpn,
        alpn_chars,
        judge_alpn,
        alpn_alts,
        ciphers_wire,
        ciphers_ng,
        exts_wire,
        exts_ng,
        sigalgs_wire,
        sigalgs_ng,
        groups_wire,
        groups_ng,
        sorted,
        original,
    }
}

/// Replace the characters of the a-part that are not judged (version = chars 1..3, ALPN = chars
/// 8..10) by '?', in a string that starts with an a-part.
pub fn mask_a(s: &str, judge_version: bool, judge_alpn: bool) -> String {
    s.chars()
        .enumerate()
        .map(|(i, c)| {
            if (!judge_version && (i == 1 || i == 2)) || (!judge_alpn && (i == 8 || i == 9)) {
                '?'
            } else {
                c
            }
        })
        .collect()
}

/// Self-check of the reference against fingerprints published in the FoxIO README / technical
/// details (harness error, not a verdict, if it fails).
pub fn self_check() {
    sha256::self_check();
    // FoxIO README example: t13d1516h2_8daaf6152771_e5627efa2ab1, built from the lists printed there.
    let ciphers = [
        0x1301u16, 0x1302, 0x1303, 0xc02b, 0xc02f, 0xc02c, 0xc030, 0xcca9, 0xcca8, 0xc013, 0xc014, 0x009c, 0x009d, 0x002f,
        0x0035,
    ];
    let mut h = Hello::minimal();
    h.ciphers = std::iter::once(0x0a0au16).chain(ciphers.iter().copied()).collect();
    let sig = vec![0x0403u16, 0x0804, 0x0401, 0x0503, 0x0805, 0x0501, 0x0806, 0x0601];
    h.extensions = Some(vec![
        Ext::Grease(0x1a1a, vec![]),
        Ext::Raw(0x001b, vec![2, 0, 2]),
        Ext::Sni(vec![(0, b"example.com".to_vec())]),
        Ext::Raw(0x0033, vec![0, 0]),
        Ext::Alpn(vec![b"h2".to_vec(), b"http/1.1".to_vec()]),
        Ext::Raw(0x4469, vec![0, 3, 2, b'h', b'2']),
        Ext::Raw(0x0017, vec![]),
        Ext::Raw(0x002d, vec![1, 1]),
        Ext::SigAlgs(sig),
        Ext::Raw(0x0005, vec![1, 0, 0, 0, 0]),
        Ext::Raw(0x0023, vec![]),
        Ext::Raw(0x0012, vec![]),
        Ext::SupportedVersions(vec![0x2a2a, 0x0304, 0x0303]),
        Ext::Raw(0xff01, vec![0]),
        Ext::EcPointFormats(vec![0]),
        Ext::Groups(vec![0x3a3a, 0x001d, 0x0017, 0x0018]),
        Ext::Grease(0x4a4a, vec![0]),
        Ext::Raw(0x0015, vec![0; 16]),
    ]);
    let e = ref_ja4(&h);
    assert_eq!(e.sorted.a, "t13d1516h2");
    assert_eq!(
        e.sorted.raw,
        "t13d1516h2_002f,0035,009c,009d,1301,1302,1303,c013,c014,c02b,c02c,c02f,c030,cca8,cca9_0005,000a,000b,000d,0012,0015,0017,001b,0023,002b,002d,0033,4469,ff01_0403,0804,0401,0503,0805,0501,0806,0601"
    );
    assert_eq!(e.sorted.full, "t13d1516h2_8daaf6152771_e5627efa2ab1");
}

// ------------------------------------------------------------------- what the library reported

#[derive(Clone, Debug, PartialEq, Eq)]
pub struct Obs {
    /// Display form of the reported version ("13", "12", ..., "00")
    pub version: String,
    /// Some(v) when the library reported `Unknown(v)`
    pub version_unknown: Option<u16>,
    pub sni: Option<String>,
    pub alpn: Option<String>,
    pub ciphers: Vec<u16>,
    pub exts: Vec<u16>,
    pub sigalgs: Vec<u16>,
    pub curves: Vec<u16>,
    /// a, b, c, full, raw of generate_ja4()
    pub s: [String; 5],
    /// a, b, c, full, raw of generate_ja4_original()
    pub o: [String; 5],
}

fn payload(p: &huginn_net_tls::Ja4Payload) -> [String; 5] {
    [
        p.ja4_a.clone(),
        p.ja4_b.clone(),
        p.ja4_c.clone(),
        p.full.value().to_string(),
        p.raw.value().to_string(),
    ]
}

fn unknown_of(v: &huginn_net_tls::TlsVersion) -> Option<u16> {
    match v {
        huginn_net_tls::TlsVersion::Unknown(x) => Some(*x),
        _ => None,
    }
}

impl Obs {
    pub fn from_sig(s: &huginn_net_tls::Signature) -> Obs {
        Obs {
            version: format!("{}", s.version),
            version_unknown: unknown_of(&s.version),
            sni: s.sni.clone(),
            alpn: s.alpn.clone(),
            ciphers: s.cipher_suites.clone(),
            exts: s.extensions.clone(),
            sigalgs: s.signature_algorithms.clone(),
            curves: s.elliptic_curves.clone(),
            s: payload(&s.generate_ja4()),
            o: payload(&s.generate_ja4_original()),
        }
    }
    pub fn from_client(c: &huginn_net_tls::ObservableTlsClient) -> Obs {
        Obs {
            version: format!("{}", c.version),
            version_unknown: unknown_of(&c.version),
            sni: c.sni.clone(),
            alpn: c.alpn.clone(),
            ciphers: c.cipher_suites.clone(),
            exts: c.extensions.clone(),
            sigalgs: c.signature_algorithms.clone(),
            curves: c.elliptic_curves.clone(),
            s: payload(&c.ja4),
            o: payload(&c.ja4_original),
        }
    }
    pub fn render(&self) -> String {
        format!(
            "ver={}{} sni={:?} alpn={:?} ciphers={:04x?} exts={:04x?} sigalgs={:04x?} curves={:04x?} ja4={} ja4_r={} ja4_o={} ja4_ro={}",
            self.version,
            self.version_unknown.map(|v| format!("(unknown {v:04x})")).unwrap_or_default(),
            self.sni,
            self.alpn,
            self.ciphers,
            self.exts,
            self.sigalgs,
            self.curves,
            self.s[3],
            self.s[4],
            self.o[3],
            self.o[4]
        )
    }
}

/// Compare what the library reported with the reference; returns the list of differences
/// (empty = agrees on everything that is judged).
pub fn diff(exp: &Expected, obs: &Obs) -> Vec<String> {
    let mut d = Vec::new();
    let (jv, ja) = (exp.judge_version, exp.judge_alpn);
    let names = ["a", "b", "c", "ja4", "ja4_r"];
    let e_s = [&exp.sorted.a, &exp.sorted.b, &exp.sorted.c, &exp.sorted.full, &exp.sorted.raw];
    let names_o = ["a(o)", "b(o)", "c(o)", "ja4_o", "ja4_ro"];
    let e_o = [&exp.original.a, &exp.original.b, &exp.original.c, &exp.original.full, &exp.original.raw];
    for i in 0..5 {
        let starts_with_a = i == 0 || i >= 3;
        let (e, a) = if starts_with_a {
            (mask_a(e_s[i], jv, ja), mask_a(&obs.s[i], jv, ja))
        } else {
            (e_s[i].clone(), obs.s[i].clone())
        };
        if e != a {
            d.push(format!("{}: expected {} got {}", names[i], e, a));
        }
        let (e, a) = if starts_with_a {
            (mask_a(e_o[i], jv, ja), mask_a(&obs.o[i], jv, ja))
        } else {
            (e_o[i].clone(), obs.o[i].clone())
        };
        if e != a {
            d.push(format!("{}: expected {} got {}", names_o[i], e, a));
        }
    }
    if !ja && !exp.alpn_alts.is_empty() {
        for (name, got) in [("a", &obs.s[0]), ("a(o)", &obs.o[0])] {
            let chars: String = got.chars().skip(8).take(2).collect();
            if !exp.alpn_alts.contains(&chars) {
                d.push(format!("{name}: ALPN characters {chars:?} are none of {:?} (the values the published editions give)", exp.alpn_alts));
            }
        }
    }
    if jv {
        if obs.version != exp.version_code {
            d.push(format!("version field: expected {} got {}", exp.version_code, obs.version));
        }
        if exp.version_code == "00" && obs.version_unknown != Some(exp.version_value) {
            d.push(format!(
                "version field: expected Unknown({:04x}) got {:?}",
                exp.version_value, obs.version_unknown
            ));
        }
    }
    // SNI: first host name
    let e_sni = exp.sni.as_ref().map(|b| String::from_utf8_lossy(b).to_string());
    let sni_judged = exp.sni.as_ref().map(|b| b.is_ascii()).unwrap_or(true);
    if sni_judged && obs.sni != e_sni {
        d.push(format!("sni field: expected {:?} got {:?}", e_sni, obs.sni));
    }
    // ALPN: first protocol, when it can be a string at all
    match &exp.alpn {
        None => {
            if obs.alpn.is_some() {
                d.push(format!("alpn field: expected None got {:?}", obs.alpn));
            }
        }
        Some(p) => {
            if let Ok(s) = std::str::from_utf8(p) {
                if obs.alpn.as_deref() != Some(s) {
                    d.push(format!("alpn field: expected {:?} got {:?}", s, obs.alpn));
                }
            }
        }
    }
    let list = |d: &mut Vec<String>, name: &str, wire: &[u16], ng: &[u16], got: &[u16]| {
        if got != wire && got != ng {
            d.push(format!("{name} field: expected {wire:04x?} (or without GREASE) got {got:04x?}"));
        }
    };
    list(&mut d, "cipher_suites", &exp.ciphers_wire, &exp.ciphers_ng, &obs.ciphers);
    list(&mut d, "extensions", &exp.exts_wire, &exp.exts_ng, &obs.exts);
    list(&mut d, "signature_algorithms", &exp.sigalgs_wire, &exp.sigalgs_ng, &obs.sigalgs);
    list(&mut d, "elliptic_curves", &exp.groups_wire, &exp.groups_ng, &obs.curves);
    d
}

// ------------------------------------------------------------------------------ model builders

/// Extension types whose body has a fixed structure in some RFC (a generator of "unknown type with
/// arbitrary body" must not use them: an arbitrary body would make the hello malformed).
pub const STRUCTURED_TYPES: [u16; 40] = [
    0, 1, 2, 3, 4, 5, 6, 7, 8, 9, 10, 11, 12, 13, 14, 15, 16, 17, 18, 19, 20, 21, 22, 23, 24, 25, 27, 28, 35, 40, 41, 42,
    43, 44, 45, 47, 48, 49, 50, 51,
];

pub fn is_structured(t: u16) -> bool {
    STRUCTURED_TYPES.contains(&t) || t == 13172 || t == 0xff01 || t == 0xffce || t == 17513 || t == 0xfe0d || (52..=60).contains(&t)
}

/// Well-formed bodies of common real-world extensions (type, body).
pub fn known_pool(r: &mut Rng) -> Vec<Ext> {
    let mut key_share = Vec::new();
    {
        let mut l = Vec::new();
        l.extend_from_slice(&[0x00, 0x1d, 0x00, 0x20]);
        l.extend_from_slice(&r.bytes(32));
        key_share.extend_from_slice(&(l.len() as u16).to_be_bytes());
        key_share.extend_from_slice(&l);
    }
    let ticket_len = r.usize(40);
    vec![
        Ext::Raw(0x0005, vec![1, 0, 0, 0, 0]),
        Ext::Raw(0x0017, vec![]),
        Ext::Raw(0xff01, vec![0]),
        Ext::Raw(0x0023, r.bytes(ticket_len)),
        Ext::Raw(0x0033, key_share),
        Ext::Raw(0x002d, vec![1, 1]),
        Ext::Raw(0x0012, vec![]),
        Ext::Raw(0x001c, vec![0x40, 0x01]),
        Ext::Raw(0x0016, vec![]),
        Ext::Raw(0x0031, vec![]),
        Ext::Raw(0x001b, vec![2, 0, 2]),
        Ext::Raw(0x4469, vec![0, 3, 2, b'h', b'2']),
        Ext::Raw(0x0015, vec![0; 7]),
        Ext::Raw(0x0001, vec![1]),
        Ext::Raw(0x000f, vec![1]),
        Ext::Raw(0x3374, vec![]),
    ]
}

pub fn realistic_ciphers() -> Vec<u16> {
    vec![
        0x1301, 0x1302, 0x1303, 0xc02b, 0xc02f, 0xc02c, 0xc030, 0xcca9, 0xcca8, 0xc013, 0xc014, 0x009c, 0x009d, 0x002f,
        0x0035, 0x000a, 0x00ff, 0xc009, 0xc00a, 0x0033, 0x0039, 0x003c, 0x003d, 0x0067, 0x006b, 0x009e, 0x009f, 0x5600,
    ]
}

/// `n` distinct non-GREASE cipher-suite values (near-GREASE values allowed: they are ordinary).
pub fn fresh_ciphers(r: &mut Rng, n: usize) -> Vec<u16> {
    let mut out: Vec<u16> = Vec::with_capacity(n);
    let mut pool = realistic_ciphers();
    r.shuffle(&mut pool);
    let mut seen = std::collections::BTreeSet::new();
    while out.len() < n {
        let c = if !pool.is_empty() && r.chance(2, 3) {
            pool.pop().unwrap_or(0x1301)
        } else if r.chance(1, 30) {
            // values next to GREASE values / looking like them
            *r.pick(&[0x0a0bu16, 0x0a1a, 0x1a0a, 0x0b0a, 0xfafb, 0xfaea, 0x0a0a - 1, 0xfafa + 1, 0x0000, 0xffff])
        } else {
            r.u16()
        };
        if is_grease(c) || !seen.insert(c) {
            continue;
        }
        out.push(c);
    }
    out
}

/// A filler extension of an unassigned/unstructured type with an arbitrary body, type not in `used`.
pub fn fresh_unknown_ext(r: &mut Rng, used: &mut std::collections::BTreeSet<u16>, allow_near_grease: bool) -> Ext {
    loop {
        let t = match r.below(10) {
            0 => 60 + r.below(200) as u16,
            1 => 0xff00 + r.below(256) as u16,
            2 if allow_near_grease && r.chance(1, 40) => {
                let hi = (r.below(16) as u16) << 4 | 0x0a;
                let lo = (r.below(16) as u16) << 4 | 0x0a;
                (hi << 8) | lo
            }
            _ => r.u16(),
        };
        if is_grease(t) || is_structured(t) || used.contains(&t) {
            continue;
        }
        if is_near_grease(t) && !allow_near_grease {
            continue;
        }
        used.insert(t);
        let len = match r.below(6) {
            0 => 0,
            1 => 1,
            2 => r.usize(300),
            _ => r.usize(12),
        };
        return Ext::Raw(t, r.bytes(len));
    }
}

pub fn host_name(r: &mut Rng) -> Vec<u8> {
    const A: &[u8] = b"abcdefghijklmnopqrstuvwxyz0123456789-";
    let labels = 1 + r.usize(4);
    let mut s = Vec::new();
    for i in 0..labels {
        if i > 0 {
            s.push(b'.');
        }
        for _ in 0..1 + r.usize(12) {
            s.push(*r.pick(A));
        }
    }
    s
}

pub fn realistic_sigalgs() -> Vec<u16> {
    vec![0x0403, 0x0804, 0x0401, 0x0503, 0x0805, 0x0501, 0x0806, 0x0601, 0x0201, 0x0203, 0x0807, 0x0808]
}

pub fn random_sigalgs(r: &mut Rng, n: usize) -> Vec<u16> {
    let mut pool = realistic_sigalgs();
    r.shuffle(&mut pool);
    let mut out = Vec::new();
    let mut seen = std::collections::BTreeSet::new();
    while out.len() < n {
        let v = if !pool.is_empty() && r.chance(3, 4) { pool.pop().unwrap_or(0x0403) } else { r.u16() };
        if is_grease(v) || !seen.insert(v) {
            continue;
        }
        out.push(v);
    }
    out
}

/// Add filler extensions (well-formed known ones first with probability, then unknown types) until
/// the hello has `n_total` non-GREASE extensions; never removes anything.
pub fn fill_exts(r: &mut Rng, h: &mut Hello, n_total: usize, allow_near_grease: bool) {
    let mut used: std::collections::BTreeSet<u16> = h.exts().iter().map(|e| e.typ()).collect();
    let mut pool = known_pool(r);
    r.shuffle(&mut pool);
    while h.non_grease_ext_count() < n_total {
        let mut pushed = false;
        if r.chance(1, 2) {
            while let Some(e) = pool.pop() {
                if used.insert(e.typ()) {
                    h.exts_mut().push(e);
                    pushed = true;
                    break;
                }
            }
        }
        if !pushed {
            let e = fresh_unknown_ext(r, &mut used, allow_near_grease);
            h.exts_mut().push(e);
        }
    }
}

/// Insert `k` random GREASE values at random positions of a u16 list.
pub fn sprinkle_grease(r: &mut Rng, v: &mut Vec<u16>, k: usize) {
    for _ in 0..k {
        let p = r.usize(v.len() + 1);
        v.insert(p, *r.pick(&GREASE));
    }
}

pub fn grease_ext(r: &mut Rng) -> Ext {
    let body = match r.below(3) {
        0 => vec![],
        1 => vec![0],
        _ => {
            let n = r.usize(9);
            r.bytes(n)
        }
    };
    Ext::Grease(*r.pick(&GREASE), body)
}

/// A browser-like hello with all semantic extensions, seeded variety in every dimension.
pub fn random_hello(r: &mut Rng, allow_near_grease: bool) -> Hello {
    let mut h = Hello::minimal();
    h.record_version = *r.pick(&[0x0301u16, 0x0301, 0x0303, 0x0300, 0x0302, 0x0304]);
    h.legacy_version = match r.below(12) {
        0 => 0x0301,
        1 => 0x0302,
        2 => 0x0300,
        3 => 0x0304,
        4 => *r.pick(&[0x0305u16, 0x7f1c, 0x7f17, 0x7f12, 0xfefd, 0x0000, 0xffff, 0x0200, 0x0400]),
        _ => 0x0303,
    };
    for b in h.random.iter_mut() {
        *b = r.u8();
    }
    let sid = match r.below(4) {
        0 => 0,
        1 => 32,
        _ => r.usize(33),
    };
    h.session_id = r.bytes(sid);
    let nc = match r.below(10) {
        0 => r.usize(4),
        1 => 90 + r.usize(25),
        _ => 1 + r.usize(40),
    };
    h.ciphers = fresh_ciphers(r, nc);
    if r.chance(1, 2) {
        let k = 1 + r.usize(3);
        sprinkle_grease(r, &mut h.ciphers, k);
    }
    if !h.ciphers.is_empty() && r.chance(1, 6) {
        // a repeated cipher suite value (the RFCs do not demand uniqueness; JA4 sorts, it never removes entries)
        for _ in 0..1 + r.usize(2) {
            let v = h.ciphers[r.usize(h.ciphers.len())];
            let p = r.usize(h.ciphers.len() + 1);
            h.ciphers.insert(p, v);
        }
    }
    h.compression = match r.below(6) {
        0 => vec![1, 0],
        1 => vec![0, 1, 64],
        _ => vec![0],
    };
    let mut exts: Vec<Ext> = Vec::new();
    if r.chance(3, 4) {
        exts.push(Ext::Sni(vec![(0, host_name(r))]));
    }
    if r.chance(2, 3) {
        let lists: [&[&[u8]]; 6] =
            [&[b"h2", b"http/1.1"], &[b"http/1.1"], &[b"h2"], &[b"h3", b"h2"], &[b"spdy/3.1", b"http/1.1"], &[b"dot"]];
        exts.push(Ext::Alpn(r.pick(&lists).iter().map(|p| p.to_vec()).collect()));
    }
    if r.chance(2, 3) {
        let mut vs: Vec<u16> = match r.below(6) {
            0 => vec![0x0304],
            1 => vec![0x0303],
            2 => vec![0x0303, 0x0302, 0x0301],
            3 => vec![0x0302, 0x0304, 0x0303],
            _ => vec![0x0304, 0x0303],
        };
        if r.chance(1, 2) {
            sprinkle_grease(r, &mut vs, 1);
        }
        exts.push(Ext::SupportedVersions(vs));
    }
    if r.chance(3, 4) {
        let n = 1 + r.usize(12);
        let mut s = random_sigalgs(r, n);
        if r.chance(1, 4) {
            sprinkle_grease(r, &mut s, 1);
        }
        if r.chance(1, 8) {
            let v = s[r.usize(s.len())];
            let p = r.usize(s.len() + 1);
            s.insert(p, v);
        }
        exts.push(Ext::SigAlgs(s));
    }
    if r.chance(3, 4) {
        let mut g = vec![0x001d, 0x0017, 0x0018];
        if r.chance(1, 2) {
            g.push(0x0100);
        }
        if r.chance(1, 2) {
            sprinkle_grease(r, &mut g, 1);
        }
        exts.push(Ext::Groups(g));
    }
    if r.chance(1, 2) {
        exts.push(Ext::EcPointFormats(vec![0]));
    }
    h.extensions = Some(exts);
    let target = h.non_grease_ext_count()
        + match r.below(10) {
            0 => 0,
            1 => 85 + r.usize(30),
            _ => r.usize(14),
        };
    fill_exts(r, &mut h, target, allow_near_grease);
    r.shuffle(h.exts_mut());
    for _ in 0..r.below(4) {
        let p = r.usize(h.exts().len() + 1);
        let g = grease_ext(r);
        h.exts_mut().insert(p, g);
    }
    if h.exts().is_empty() && r.chance(1, 2) {
        h.extensions = None;
    }
    h
}

/// Grow the hello with a padding extension (type 21, zero bytes) so that its record is exactly
/// `total` bytes long (5-byte header included).  Returns false if that is impossible.
pub fn pad_record_to(h: &mut Hello, total: usize) -> bool {
    if h.exts().iter().any(|e| e.typ() == 0x0015) {
        return false;
    }
    let had_block = h.extensions.is_some();
    let cur = h.record().len() + if had_block { 0 } else { 2 };
    if total < cur + 4 || total > 5 + 0xffff {
        return false;
    }
    let pad = total - cur - 4;
    if pad > 0xffff {
        return false;
    }
    h.exts_mut().push(Ext::Raw(0x0015, vec![0; pad]));
    if !h.encodable() || h.record().len() != total {
        h.exts_mut().pop();
        if !had_block {
            h.extensions = None;
        }
        return false;
    }
    true
}
