//! Byte-level packet construction (no pnet): link framing, IPv4/IPv6, TCP segments,
//! and a small connection scripter.

use std::net::{IpAddr, Ipv4Addr, Ipv6Addr};

#[derive(Clone, Copy, PartialEq, Eq, Debug)]
pub enum Link {
    Ethernet,
    /// Ethernet II with the given destination and source MAC addresses (the analyzers try the
    /// Ethernet reading of a frame first, so MAC bytes that look like an IP header or a NULL
    /// family word must not matter)
    EthernetMac([u8; 6], [u8; 6]),
    RawIp,
    /// NULL/loopback framing with the 4 family bytes given
    Null([u8; 4]),
}

pub const NULL_V6_LE: [u8; 4] = [0x1e, 0x00, 0x00, 0x00];

pub mod flags {
    pub const FIN: u8 = 0x01;
    pub const SYN: u8 = 0x02;
    pub const RST: u8 = 0x04;
    pub const PSH: u8 = 0x08;
    pub const ACK: u8 = 0x10;
    pub const URG: u8 = 0x20;
    pub const ECE: u8 = 0x40;
    pub const CWR: u8 = 0x80;
}

#[derive(Clone, Debug)]
pub struct Tcp {
    pub sport: u16,
    pub dport: u16,
    pub seq: u32,
    pub ack: u32,
    /// low 8 flag bits (CWR ECE URG ACK PSH RST SYN FIN)
    pub flags: u8,
    /// the 4 reserved bits / NS (upper nibble of byte 12 low part); normally 0
    pub reserved: u8,
    pub window: u16,
    pub urg: u16,
    /// raw option bytes (padded by the builder to a multiple of 4 with `pad_byte` unless `data_offset` is forced)
    pub options: Vec<u8>,
    pub pad_byte: u8,
    /// force the data-offset field (in words); None = computed
    pub data_offset: Option<u8>,
    pub payload: Vec<u8>,
}

impl Default for Tcp {
    fn default() -> Self {
        Tcp {
            sport: 40000,
            dport: 80,
            seq: 1000,
            ack: 0,
            flags: flags::SYN,
            reserved: 0,
            window: 65535,
            urg: 0,
            options: Vec::new(),
            pad_byte: 0,
            data_offset: None,
            payload: Vec::new(),
        }
    }
}

impl Tcp {
    /// the option area exactly as it goes on the wire (padded to a multiple of 4)
    pub fn opt_area(&self) -> Vec<u8> {
        let mut opts = self.options.clone();
        while opts.len() % 4 != 0 {
            opts.push(self.pad_byte);
        }
        opts
    }
    pub fn bytes(&self) -> Vec<u8> {
        let opts = self.opt_area();
        let doff = self.data_offset.unwrap_or((5 + opts.len() / 4) as u8) & 0x0f;
        let mut b = Vec::with_capacity(20 + opts.len() + self.payload.len());
        b.extend_from_slice(&self.sport.to_be_bytes());
        b.extend_from_slice(&self.dport.to_be_bytes());
        b.extend_from_slice(&self.seq.to_be_bytes());
        b.extend_from_slice(&self.ack.to_be_bytes());
        b.push((doff << 4) | (self.reserved & 0x0f));
        b.push(self.flags);
        b.extend_from_slice(&self.window.to_be_bytes());
        b.extend_from_slice(&[0, 0]); // checksum (not verified by the analyzers)
        b.extend_from_slice(&self.urg.to_be_bytes());
        b.extend_from_slice(&opts);
        b.extend_from_slice(&self.payload);
        b
    }
}

#[derive(Clone, Debug)]
pub struct V4 {
    pub src: Ipv4Addr,
    pub dst: Ipv4Addr,
    pub ttl: u8,
    pub tos: u8,
    pub id: u16,
    /// 3 flag bits: 0b100 reserved(MBZ), 0b010 DF, 0b001 MF
    pub flags: u8,
    pub frag_off: u16,
    pub proto: u8,
    /// IP option bytes (multiple of 4 expected)
    pub options: Vec<u8>,
    /// force IHL nibble; None = computed
    pub ihl: Option<u8>,
    /// force total length; None = computed
    pub total_len: Option<u16>,
    pub version: u8,
}

impl Default for V4 {
    fn default() -> Self {
        V4 {
            src: Ipv4Addr::new(10, 1, 2, 3),
            dst: Ipv4Addr::new(10, 9, 8, 7),
            ttl: 64,
            tos: 0,
            id: 0x1234,
            flags: 0b010,
            frag_off: 0,
            proto: 6,
            options: Vec::new(),
            ihl: None,
            total_len: None,
            version: 4,
        }
    }
}

impl V4 {
    pub fn bytes(&self, l4: &[u8]) -> Vec<u8> {
        let ihl = self.ihl.unwrap_or((5 + self.options.len() / 4) as u8) & 0x0f;
        let total = self
            .total_len
            .unwrap_or((20 + self.options.len() + l4.len()).min(65535) as u16);
        let mut b = Vec::with_capacity(20 + self.options.len() + l4.len());
        b.push((self.version << 4) | ihl);
        b.push(self.tos);
        b.extend_from_slice(&total.to_be_bytes());
        b.extend_from_slice(&self.id.to_be_bytes());
        let ff = ((self.flags as u16 & 0x7) << 13) | (self.frag_off & 0x1fff);
        b.extend_from_slice(&ff.to_be_bytes());
        b.push(self.ttl);
        b.push(self.proto);
        b.extend_from_slice(&[0, 0]);
        b.extend_from_slice(&self.src.octets());
        b.extend_from_slice(&self.dst.octets());
        b.extend_from_slice(&self.options);
        b.extend_from_slice(l4);
        b
    }
}

#[derive(Clone, Debug)]
pub struct V6 {
    pub src: Ipv6Addr,
    pub dst: Ipv6Addr,
    pub hop: u8,
    pub tclass: u8,
    pub flow: u32,
    pub next: u8,
    pub payload_len: Option<u16>,
    pub version: u8,
}

impl Default for V6 {
    fn default() -> Self {
        V6 {
            src: "2001:db8::1".parse().unwrap(),
            dst: "2001:db8::2".parse().unwrap(),
            hop: 64,
            tclass: 0,
            flow: 0,
            next: 6,
            payload_len: None,
            version: 6,
        }
    }
}

impl V6 {
    pub fn bytes(&self, l4: &[u8]) -> Vec<u8> {
        let mut b = Vec::with_capacity(40 + l4.len());
        let w: u32 = ((self.version as u32) << 28) | ((self.tclass as u32) << 20) | (self.flow & 0xfffff);
        b.extend_from_slice(&w.to_be_bytes());
        let pl = self.payload_len.unwrap_or(l4.len().min(65535) as u16);
        b.extend_from_slice(&pl.to_be_bytes());
        b.push(self.next);
        b.push(self.hop);
        b.extend_from_slice(&self.src.octets());
        b.extend_from_slice(&self.dst.octets());
        b.extend_from_slice(l4);
        b
    }
}

#[derive(Clone, Debug)]
pub enum Ip {
    V4(V4),
    V6(V6),
}

impl Ip {
    pub fn bytes(&self, l4: &[u8]) -> Vec<u8> {
        match self {
            Ip::V4(h) => h.bytes(l4),
            Ip::V6(h) => h.bytes(l4),
        }
    }
    pub fn is_v4(&self) -> bool {
        matches!(self, Ip::V4(_))
    }
    pub fn src(&self) -> IpAddr {
        match self {
            Ip::V4(h) => IpAddr::V4(h.src),
            Ip::V6(h) => IpAddr::V6(h.src),
        }
    }
    pub fn dst(&self) -> IpAddr {
        match self {
            Ip::V4(h) => IpAddr::V4(h.dst),
            Ip::V6(h) => IpAddr::V6(h.dst),
        }
    }
    pub fn swapped(&self) -> Ip {
        match self {
            Ip::V4(h) => {
                let mut n = h.clone();
                std::mem::swap(&mut n.src, &mut n.dst);
                Ip::V4(n)
            }
            Ip::V6(h) => {
                let mut n = h.clone();
                std::mem::swap(&mut n.src, &mut n.dst);
                Ip::V6(n)
            }
        }
    }
}

pub fn frame(link: Link, ip_bytes: &[u8], is_v4: bool) -> Vec<u8> {
    match link {
        Link::Ethernet => {
            let mut b = Vec::with_capacity(14 + ip_bytes.len());
            b.extend_from_slice(&[0x02, 0x00, 0x5e, 0x10, 0x00, 0x01]);
            b.extend_from_slice(&[0x02, 0x00, 0x5e, 0x10, 0x00, 0x02]);
            b.extend_from_slice(if is_v4 { &[0x08, 0x00] } else { &[0x86, 0xdd] });
            b.extend_from_slice(ip_bytes);
            b
        }
        Link::EthernetMac(dst, src) => {
            let mut b = Vec::with_capacity(14 + ip_bytes.len());
            b.extend_from_slice(&dst);
            b.extend_from_slice(&src);
            b.extend_from_slice(if is_v4 { &[0x08, 0x00] } else { &[0x86, 0xdd] });
            b.extend_from_slice(ip_bytes);
            b
        }
        Link::RawIp => ip_bytes.to_vec(),
        Link::Null(fam) => {
            let mut b = Vec::with_capacity(4 + ip_bytes.len());
            b.extend_from_slice(&fam);
            b.extend_from_slice(ip_bytes);
            b
        }
    }
}

/// An Ethernet framing whose MAC bytes read like the start of an IPv4 / IPv6 header (version
/// nibble 4 or 6, protocol byte 6 where a raw-IP reading would look for it) or like a NULL/loopback
/// family word.  `pick` selects the shape, `x` fills the free bytes.
pub fn lookalike_macs(pick: u64, x: [u8; 6]) -> Link {
    let (dst, src): ([u8; 6], [u8; 6]) = match pick % 6 {
        // IPv4 look: version/IHL 0x45..0x4f; a raw-IPv4 reading finds its protocol byte at src[3]
        0 => ([0x45 + (x[0] % 11), x[1], x[2], x[3], x[4], x[5]], [x[0], x[1], x[2], 0x06, x[3], x[4]]),
        1 => ([0x44, 0x38, 0x39, x[0], x[1], x[2]], [0x08, 0x00, 0x45, 0x06, x[3], x[4]]),
        // IPv6 look: version nibble 6; a raw-IPv6 reading finds next-header at dst[6] = src[0]
        2 => ([0x60 + (x[0] % 16), 0xf8, 0x1d, x[1], x[2], x[3]], [0x06, x[4], x[5], x[0], x[1], x[2]]),
        // NULL/loopback family words (2 = AF_INET, 0x1e/0x1c/0x18 = AF_INET6 flavours), either endianness
        3 => ([0x1e, 0x00, 0x00, 0x00, 0x60 + (x[0] % 16), x[1]], [x[2], x[3], x[4], x[5], 0x06, x[0]]),
        4 => ([0x02, 0x00, 0x00, 0x00, 0x45, x[0]], [x[1], x[2], x[3], x[4], 0x06, x[5]]),
        _ => ([0x00, 0x00, 0x00, 0x02, 0x45 + (x[0] % 11), x[1]], [x[2], x[3], x[4], x[5], 0x06, x[0]]),
    };
    Link::EthernetMac(dst, src)
}

/// Full frame from parts.
pub fn build(link: Link, ip: &Ip, tcp: &Tcp) -> Vec<u8> {
    let l4 = tcp.bytes();
    let ipb = ip.bytes(&l4);
    frame(link, &ipb, ip.is_v4())
}

// ---------------------------------------------------------------------------------------------
// TCP option encoders
// ---------------------------------------------------------------------------------------------

pub fn opt_mss(v: u16) -> Vec<u8> {
    vec![2, 4, (v >> 8) as u8, v as u8]
}
pub fn opt_ws(s: u8) -> Vec<u8> {
    vec![3, 3, s]
}
pub fn opt_sok() -> Vec<u8> {
    vec![4, 2]
}
pub fn opt_nop() -> Vec<u8> {
    vec![1]
}
pub fn opt_eol() -> Vec<u8> {
    vec![0]
}
pub fn opt_ts(val: u32, ecr: u32) -> Vec<u8> {
    let mut b = vec![8, 10];
    b.extend_from_slice(&val.to_be_bytes());
    b.extend_from_slice(&ecr.to_be_bytes());
    b
}
pub fn opt_sack(blocks: usize) -> Vec<u8> {
    let mut b = vec![5, (2 + 8 * blocks) as u8];
    for i in 0..blocks * 8 {
        b.push(i as u8 + 1);
    }
    b
}
pub fn opt_unknown(kind: u8, data: &[u8]) -> Vec<u8> {
    let mut b = vec![kind, (2 + data.len()) as u8];
    b.extend_from_slice(data);
    b
}

// ---------------------------------------------------------------------------------------------
// Connection scripter
// ---------------------------------------------------------------------------------------------

#[derive(Clone, Debug)]
pub struct Endpoints {
    pub client: IpAddr,
    pub server: IpAddr,
    pub cport: u16,
    pub sport: u16,
}

impl Endpoints {
    pub fn v4(c: [u8; 4], cport: u16, s: [u8; 4], sport: u16) -> Endpoints {
        Endpoints { client: IpAddr::V4(c.into()), server: IpAddr::V4(s.into()), cport, sport }
    }
    pub fn ip_hdr(&self, from_client: bool, ttl: u8) -> Ip {
        let (src, dst) = if from_client { (self.client, self.server) } else { (self.server, self.client) };
        match (src, dst) {
            (IpAddr::V4(s), IpAddr::V4(d)) => Ip::V4(V4 { src: s, dst: d, ttl, ..Default::default() }),
            (IpAddr::V6(s), IpAddr::V6(d)) => Ip::V6(V6 { src: s, dst: d, hop: ttl, ..Default::default() }),
            (IpAddr::V4(s), IpAddr::V6(_)) => Ip::V4(V4 { src: s, dst: Ipv4Addr::new(0, 0, 0, 0), ttl, ..Default::default() }),
            (IpAddr::V6(s), IpAddr::V4(_)) => Ip::V6(V6 { src: s, dst: Ipv6Addr::UNSPECIFIED, hop: ttl, ..Default::default() }),
        }
    }
    pub fn key(&self) -> String {
        format!("{}:{}-{}:{}", self.client, self.cport, self.server, self.sport)
    }
}

/// One frame of a scripted trace with its virtual arrival time.
#[derive(Clone, Debug)]
pub struct Timed {
    pub at_ms: u64,
    pub frame: Vec<u8>,
    /// index of the connection this frame belongs to (scenario-local)
    pub conn: usize,
}

pub struct Script {
    pub ep: Endpoints,
    pub link: Link,
    pub c_isn: u32,
    pub s_isn: u32,
    pub c_next: u32,
    pub s_next: u32,
    pub ttl_c: u8,
    pub ttl_s: u8,
    pub frames: Vec<Vec<u8>>,
    /// non-zero: segments without SYN get per-packet values in the IP header fields that do not
    /// belong to a connection's identity (IPv6 flow label, IPv4 identification); the cell holds
    /// the generator state
    pub vary_ip: std::cell::Cell<u64>,
    /// IPv4 flag bits for every packet of the connection (e.g. 0b001: More Fragments set with
    /// offset 0 -- a first fragment that holds the whole segment)
    pub v4_flags: Option<u8>,
    /// every second IPv4 packet of the connection carries a 4-byte IP option (Router Alert)
    pub v4_opt_alt: bool,
    /// link-layer trailer on Ethernet frames: 1 = frames shorter than 60 octets are zero-padded to
    /// the Ethernet minimum, 2 = that padding plus four trailer octets (a captured FCS) on every frame
    pub eth_trailer: u8,
    pkt_no: std::cell::Cell<u64>,
}

impl Script {
    pub fn new(ep: Endpoints, link: Link, c_isn: u32, s_isn: u32) -> Script {
        Script {
            ep,
            link,
            c_isn,
            s_isn,
            c_next: c_isn.wrapping_add(1),
            s_next: s_isn.wrapping_add(1),
            ttl_c: 64,
            ttl_s: 60,
            frames: Vec::new(),
            vary_ip: std::cell::Cell::new(0),
            v4_flags: None,
            v4_opt_alt: false,
            eth_trailer: 0,
            pkt_no: std::cell::Cell::new(0),
        }
    }
    pub fn seg(&self, from_client: bool, seq: u32, ack: u32, fl: u8, options: Vec<u8>, payload: &[u8]) -> Vec<u8> {
        let mut ip = self.ep.ip_hdr(from_client, if from_client { self.ttl_c } else { self.ttl_s });
        let st = self.vary_ip.get();
        if st != 0 && fl & flags::SYN == 0 {
            let mut x = st.wrapping_mul(0x9E37_79B9_7F4A_7C15).wrapping_add(0x1234_5678_9abc_def1);
            x ^= x >> 29;
            self.vary_ip.set(x | 1);
            match &mut ip {
                Ip::V6(h) => h.flow = (x >> 20) as u32 & 0xfffff,
                Ip::V4(h) => h.id = 1 + ((x >> 24) as u16 % 0xfffe),
            }
        }
        let no = self.pkt_no.get();
        self.pkt_no.set(no + 1);
        if let Ip::V4(h) = &mut ip {
            if let Some(f) = self.v4_flags {
                h.flags = f;
            }
            if self.v4_opt_alt && no % 2 == 1 {
                h.options = vec![0x94, 0x04, 0x00, 0x00];
            }
        }
        let (sp, dp) = if from_client { (self.ep.cport, self.ep.sport) } else { (self.ep.sport, self.ep.cport) };
        let tcp = Tcp {
            sport: sp,
            dport: dp,
            seq,
            ack,
            flags: fl,
            window: 29200,
            options,
            payload: payload.to_vec(),
            ..Default::default()
        };
        let mut f = build(self.link, &ip, &tcp);
        if self.eth_trailer > 0 && matches!(self.link, Link::Ethernet | Link::EthernetMac(..)) {
            if f.len() < 60 {
                f.resize(60, 0);
            }
            if self.eth_trailer > 1 {
                f.extend_from_slice(&[0xde, 0xad, (no & 0xff) as u8, 0xef]);
            }
        }
        f
    }
    pub fn syn(&mut self, options: Vec<u8>) -> &mut Self {
        let f = self.seg(true, self.c_isn, 0, flags::SYN, options, &[]);
        self.frames.push(f);
        self
    }
    pub fn syn_ack(&mut self, options: Vec<u8>) -> &mut Self {
        let f = self.seg(false, self.s_isn, self.c_isn.wrapping_add(1), flags::SYN | flags::ACK, options, &[]);
        self.frames.push(f);
        self
    }
    pub fn ack(&mut self) -> &mut Self {
        let f = self.seg(true, self.c_next, self.s_next, flags::ACK, vec![], &[]);
        self.frames.push(f);
        self
    }
    pub fn handshake(&mut self) -> &mut Self {
        self.syn(opt_mss(1460));
        self.syn_ack(opt_mss(1460));
        self.ack();
        self
    }
    /// client data, in order, advancing the client's next sequence number
    pub fn c_data(&mut self, payload: &[u8]) -> &mut Self {
        let f = self.seg(true, self.c_next, self.s_next, flags::ACK | flags::PSH, vec![], payload);
        self.c_next = self.c_next.wrapping_add(payload.len() as u32);
        self.frames.push(f);
        self
    }
    pub fn s_data(&mut self, payload: &[u8]) -> &mut Self {
        let f = self.seg(false, self.s_next, self.c_next, flags::ACK | flags::PSH, vec![], payload);
        self.s_next = self.s_next.wrapping_add(payload.len() as u32);
        self.frames.push(f);
        self
    }
    /// split `stream` at the cut positions and emit in-order data segments
    pub fn c_stream(&mut self, stream: &[u8], cuts: &[usize]) -> &mut Self {
        for part in split_at(stream, cuts) {
            self.c_data(part);
        }
        self
    }
    pub fn s_stream(&mut self, stream: &[u8], cuts: &[usize]) -> &mut Self {
        for part in split_at(stream, cuts) {
            self.s_data(part);
        }
        self
    }
}

/// split a byte string at sorted cut offsets (0 < c < len), skipping empty parts
pub fn split_at<'a>(stream: &'a [u8], cuts: &[usize]) -> Vec<&'a [u8]> {
    let mut out = Vec::new();
    let mut prev = 0usize;
    for &c in cuts {
        let c = c.min(stream.len());
        if c > prev {
            out.push(&stream[prev..c]);
            prev = c;
        }
    }
    if prev < stream.len() {
        out.push(&stream[prev..]);
    }
    out
}

/// Write frames as a classic little-endian pcap file with the given link type
/// (1 = Ethernet, 101 = raw IP, 0 = NULL).
pub fn write_pcap(path: &str, linktype: u32, frames: &[Vec<u8>]) -> std::io::Result<()> {
    let mut b: Vec<u8> = Vec::new();
    b.extend_from_slice(&0xa1b2c3d4u32.to_le_bytes());
    b.extend_from_slice(&2u16.to_le_bytes());
    b.extend_from_slice(&4u16.to_le_bytes());
    b.extend_from_slice(&0i32.to_le_bytes());
    b.extend_from_slice(&0u32.to_le_bytes());
    b.extend_from_slice(&262144u32.to_le_bytes());
    b.extend_from_slice(&linktype.to_le_bytes());
    for (i, f) in frames.iter().enumerate() {
        b.extend_from_slice(&(1_600_000_000u32 + i as u32).to_le_bytes());
        b.extend_from_slice(&0u32.to_le_bytes());
        b.extend_from_slice(&(f.len() as u32).to_le_bytes());
        b.extend_from_slice(&(f.len() as u32).to_le_bytes());
        b.extend_from_slice(f);
    }
    std::fs::write(path, b)
}

/// Read the packets of a classic pcap file (either endianness).
pub fn read_pcap(path: &str) -> Vec<Vec<u8>> {
    let Ok(b) = std::fs::read(path) else { return Vec::new() };
    if b.len() < 24 {
        return Vec::new();
    }
    let magic = u32::from_le_bytes([b[0], b[1], b[2], b[3]]);
    let le = magic == 0xa1b2c3d4 || magic == 0xa1b23c4d;
    let rd = |o: usize| -> u32 {
        let x = [b[o], b[o + 1], b[o + 2], b[o + 3]];
        if le {
            u32::from_le_bytes(x)
        } else {
            u32::from_be_bytes(x)
        }
    };
    let mut out = Vec::new();
    let mut o = 24usize;
    while o + 16 <= b.len() {
        let caplen = rd(o + 8) as usize;
        o += 16;
        if o + caplen > b.len() {
            break;
        }
        out.push(b[o..o + caplen].to_vec());
        o += caplen;
    }
    out
}
