//! h2gen — self-contained HTTP/2 (RFC 7540) framer and HPACK (RFC 7541) encoder/decoder used by
//! the harness to *generate* HTTP/2 byte streams with a known meaning.
//!
//! Nothing here depends on the library under test.  The Huffman code (RFC 7541 Appendix B) and
//! the static table (Appendix A) were taken from an independent implementation (python-hyper/hpack)
//! and are validated at start-up by `self_check()` against the worked examples of RFC 7541
//! Appendix C (C.1 integers, C.2.1-C.2.4, C.3, C.4, C.5, C.6) plus a Kraft-equality check.
//!
//! Quick tour
//! ----------
//! * HPACK encoder: `Encoder::new()`, `enc.field(&mut out, name, value, Repr)`,
//!   `enc.size_update(&mut out, n)`; one-shot `encode_block(&[(name, value, Repr)])`.
//!   `Repr::Indexed` emits an indexed field when (name, value) is in the static or dynamic table and
//!   falls back to a literal with incremental indexing otherwise; `Repr::Literal { .. }` chooses the
//!   indexing mode, whether the name is sent as an index (if one exists) and Huffman per string.
//!   The encoder keeps the dynamic table, so later fields of the same block / connection can
//!   reference entries inserted earlier (`enc.used` tells what was really emitted).
//! * HPACK decoder (`Decoder`): RFC decoding with the leniencies of common decoders (size updates
//!   anywhere); used for encoder round-trip self-checks and for *deviation models* of known defects.
//! * Frames: `frame(type, flags, stream, payload)`, `settings`, `settings_ack`, `window_update`,
//!   `priority`, `ping`, `data`, `rst_stream`, `goaway`, `headers_frames(block, &HeadersOpts)` (PADDED,
//!   PRIORITY, END_STREAM, split over CONTINUATION frames at arbitrary byte positions).
//! * Messages: `request_bytes(pre, block, opts, post)` = preface + `pre` frames + header block
//!   frames + `post`; `response_bytes(..)` the same without preface; `simple_request`/`simple_response`.
//! * `split_frames(bytes)` — an independent frame splitter (complete frames only).

use std::collections::VecDeque;

// ------------------------------------------------------------------------------------------------
// constants
// ------------------------------------------------------------------------------------------------

/// RFC 7540 §3.5 client connection preface.
pub const PREFACE: &[u8; 24] = b"PRI * HTTP/2.0\r\n\r\nSM\r\n\r\n";

pub const T_DATA: u8 = 0x0;
pub const T_HEADERS: u8 = 0x1;
pub const T_PRIORITY: u8 = 0x2;
pub const T_RST_STREAM: u8 = 0x3;
pub const T_SETTINGS: u8 = 0x4;
pub const T_PUSH_PROMISE: u8 = 0x5;
pub const T_PING: u8 = 0x6;
pub const T_GOAWAY: u8 = 0x7;
pub const T_WINDOW_UPDATE: u8 = 0x8;
pub const T_CONTINUATION: u8 = 0x9;

pub const F_END_STREAM: u8 = 0x1;
pub const F_ACK: u8 = 0x1;
pub const F_END_HEADERS: u8 = 0x4;
pub const F_PADDED: u8 = 0x8;
pub const F_PRIORITY: u8 = 0x20;

/// Default SETTINGS_MAX_FRAME_SIZE.
pub const MAX_FRAME: usize = 16384;

/// RFC 7541 Appendix B: (code, bit length) for symbols 0..=255 and EOS (256).
pub const HUFFMAN: [(u32, u8); 257] = [
    (0x1ff8, 13), (0x7fffd8, 23), (0xfffffe2, 28), (0xfffffe3, 28),
    (0xfffffe4, 28), (0xfffffe5, 28), (0xfffffe6, 28), (0xfffffe7, 28),
    (0xfffffe8, 28), (0xffffea, 24), (0x3ffffffc, 30), (0xfffffe9, 28),
    (0xfffffea, 28), (0x3ffffffd, 30), (0xfffffeb, 28), (0xfffffec, 28),
    (0xfffffed, 28), (0xfffffee, 28), (0xfffffef, 28), (0xffffff0, 28),
    (0xffffff1, 28), (0xffffff2, 28), (0x3ffffffe, 30), (0xffffff3, 28),
    (0xffffff4, 28), (0xffffff5, 28), (0xffffff6, 28), (0xffffff7, 28),
    (0xffffff8, 28), (0xffffff9, 28), (0xffffffa, 28), (0xffffffb, 28),
    (0x14, 6), (0x3f8, 10), (0x3f9, 10), (0xffa, 12),
    (0x1ff9, 13), (0x15, 6), (0xf8, 8), (0x7fa, 11),
    (0x3fa, 10), (0x3fb, 10), (0xf9, 8), (0x7fb, 11),
    (0xfa, 8), (0x16, 6), (0x17, 6), (0x18, 6),
    (0x0, 5), (0x1, 5), (0x2, 5), (0x19, 6),
    (0x1a, 6), (0x1b, 6), (0x1c, 6), (0x1d, 6),
    (0x1e, 6), (0x1f, 6), (0x5c, 7), (0xfb, 8),
    (0x7ffc, 15), (0x20, 6), (0xffb, 12), (0x3fc, 10),
    (0x1ffa, 13), (0x21, 6), (0x5d, 7), (0x5e, 7),
    (0x5f, 7), (0x60, 7), (0x61, 7), (0x62, 7),
    (0x63, 7), (0x64, 7), (0x65, 7), (0x66, 7),
    (0x67, 7), (0x68, 7), (0x69, 7), (0x6a, 7),
    (0x6b, 7), (0x6c, 7), (0x6d, 7), (0x6e, 7),
    (0x6f, 7), (0x70, 7), (0x71, 7), (0x72, 7),
    (0xfc, 8), (0x73, 7), (0xfd, 8), (0x1ffb, 13),
    (0x7fff0, 19), (0x1ffc, 13), (0x3ffc, 14), (0x22, 6),
    (0x7ffd, 15), (0x3, 5), (0x23, 6), (0x4, 5),
    (0x24, 6), (0x5, 5), (0x25, 6), (0x26, 6),
    (0x27, 6), (0x6, 5), (0x74, 7), (0x75, 7),
    (0x28, 6), (0x29, 6), (0x2a, 6), (0x7, 5),
    (0x2b, 6), (0x76, 7), (0x2c, 6), (0x8, 5),
    (0x9, 5), (0x2d, 6), (0x77, 7), (0x78, 7),
    (0x79, 7), (0x7a, 7), (0x7b, 7), (0x7ffe, 15),
    (0x7fc, 11), (0x3ffd, 14), (0x1ffd, 13), (0xffffffc, 28),
    (0xfffe6, 20), (0x3fffd2, 22), (0xfffe7, 20), (0xfffe8, 20),
    (0x3fffd3, 22), (0x3fffd4, 22), (0x3fffd5, 22), (0x7fffd9, 23),
    (0x3fffd6, 22), (0x7fffda, 23), (0x7fffdb, 23), (0x7fffdc, 23),
    (0x7fffdd, 23), (0x7fffde, 23), (0xffffeb, 24), (0x7fffdf, 23),
    (0xffffec, 24), (0xffffed, 24), (0x3fffd7, 22), (0x7fffe0, 23),
    (0xffffee, 24), (0x7fffe1, 23), (0x7fffe2, 23), (0x7fffe3, 23),
    (0x7fffe4, 23), (0x1fffdc, 21), (0x3fffd8, 22), (0x7fffe5, 23),
    (0x3fffd9, 22), (0x7fffe6, 23), (0x7fffe7, 23), (0xffffef, 24),
    (0x3fffda, 22), (0x1fffdd, 21), (0xfffe9, 20), (0x3fffdb, 22),
    (0x3fffdc, 22), (0x7fffe8, 23), (0x7fffe9, 23), (0x1fffde, 21),
    (0x7fffea, 23), (0x3fffdd, 22), (0x3fffde, 22), (0xfffff0, 24),
    (0x1fffdf, 21), (0x3fffdf, 22), (0x7fffeb, 23), (0x7fffec, 23),
    (0x1fffe0, 21), (0x1fffe1, 21), (0x3fffe0, 22), (0x1fffe2, 21),
    (0x7fffed, 23), (0x3fffe1, 22), (0x7fffee, 23), (0x7fffef, 23),
    (0xfffea, 20), (0x3fffe2, 22), (0x3fffe3, 22), (0x3fffe4, 22),
    (0x7ffff0, 23), (0x3fffe5, 22), (0x3fffe6, 22), (0x7ffff1, 23),
    (0x3ffffe0, 26), (0x3ffffe1, 26), (0xfffeb, 20), (0x7fff1, 19),
    (0x3fffe7, 22), (0x7ffff2, 23), (0x3fffe8, 22), (0x1ffffec, 25),
    (0x3ffffe2, 26), (0x3ffffe3, 26), (0x3ffffe4, 26), (0x7ffffde, 27),
    (0x7ffffdf, 27), (0x3ffffe5, 26), (0xfffff1, 24), (0x1ffffed, 25),
    (0x7fff2, 19), (0x1fffe3, 21), (0x3ffffe6, 26), (0x7ffffe0, 27),
    (0x7ffffe1, 27), (0x3ffffe7, 26), (0x7ffffe2, 27), (0xfffff2, 24),
    (0x1fffe4, 21), (0x1fffe5, 21), (0x3ffffe8, 26), (0x3ffffe9, 26),
    (0xffffffd, 28), (0x7ffffe3, 27), (0x7ffffe4, 27), (0x7ffffe5, 27),
    (0xfffec, 20), (0xfffff3, 24), (0xfffed, 20), (0x1fffe6, 21),
    (0x3fffe9, 22), (0x1fffe7, 21), (0x1fffe8, 21), (0x7ffff3, 23),
    (0x3fffea, 22), (0x3fffeb, 22), (0x1ffffee, 25), (0x1ffffef, 25),
    (0xfffff4, 24), (0xfffff5, 24), (0x3ffffea, 26), (0x7ffff4, 23),
    (0x3ffffeb, 26), (0x7ffffe6, 27), (0x3ffffec, 26), (0x3ffffed, 26),
    (0x7ffffe7, 27), (0x7ffffe8, 27), (0x7ffffe9, 27), (0x7ffffea, 27),
    (0x7ffffeb, 27), (0xffffffe, 28), (0x7ffffec, 27), (0x7ffffed, 27),
    (0x7ffffee, 27), (0x7ffffef, 27), (0x7fffff0, 27), (0x3ffffee, 26),
    (0x3fffffff, 30),
];

/// RFC 7541 Appendix A.
pub const STATIC_TABLE: [(&str, &str); 61] = [
    (":authority", ""),
    (":method", "GET"),
    (":method", "POST"),
    (":path", "/"),
    (":path", "/index.html"),
    (":scheme", "http"),
    (":scheme", "https"),
    (":status", "200"),
    (":status", "204"),
    (":status", "206"),
    (":status", "304"),
    (":status", "400"),
    (":status", "404"),
    (":status", "500"),
    ("accept-charset", ""),
    ("accept-encoding", "gzip, deflate"),
    ("accept-language", ""),
    ("accept-ranges", ""),
    ("accept", ""),
    ("access-control-allow-origin", ""),
    ("age", ""),
    ("allow", ""),
    ("authorization", ""),
    ("cache-control", ""),
    ("content-disposition", ""),
    ("content-encoding", ""),
    ("content-language", ""),
    ("content-length", ""),
    ("content-location", ""),
    ("content-range", ""),
    ("content-type", ""),
    ("cookie", ""),
    ("date", ""),
    ("etag", ""),
    ("expect", ""),
    ("expires", ""),
    ("from", ""),
    ("host", ""),
    ("if-match", ""),
    ("if-modified-since", ""),
    ("if-none-match", ""),
    ("if-range", ""),
    ("if-unmodified-since", ""),
    ("last-modified", ""),
    ("link", ""),
    ("location", ""),
    ("max-forwards", ""),
    ("proxy-authenticate", ""),
    ("proxy-authorization", ""),
    ("range", ""),
    ("referer", ""),
    ("refresh", ""),
    ("retry-after", ""),
    ("server", ""),
    ("set-cookie", ""),
    ("strict-transport-security", ""),
    ("transfer-encoding", ""),
    ("user-agent", ""),
    ("vary", ""),
    ("via", ""),
    ("www-authenticate", ""),
];

// ------------------------------------------------------------------------------------------------
// HPACK primitives
// ------------------------------------------------------------------------------------------------

/// RFC 7541 §5.1: integer with an N-bit prefix; `high` holds the bits above the prefix.
/// `pad_octets` appends that many redundant continuation octets (0x80 .. 0x00), which is a legal
/// (non-minimal) encoding; only possible when the value does not fit the prefix.
pub fn enc_int_padded(out: &mut Vec<u8>, prefix_bits: u8, high: u8, value: u64, pad_octets: u8) {
    debug_assert!((1..=8).contains(&prefix_bits));
    let max: u64 = (1u64 << prefix_bits) - 1;
    if value < max {
        out.push(high | value as u8);
        return;
    }
    out.push(high | max as u8);
    let mut v = value - max;
    let mut pads = pad_octets;
    loop {
        if v >= 128 {
            out.push((v % 128) as u8 | 0x80);
            v /= 128;
        } else if pads > 0 {
            out.push(v as u8 | 0x80);
            v = 0;
            pads -= 1;
        } else {
            out.push(v as u8);
            break;
        }
    }
}

pub fn enc_int(out: &mut Vec<u8>, prefix_bits: u8, high: u8, value: u64) {
    enc_int_padded(out, prefix_bits, high, value, 0)
}

/// Huffman-encode (RFC 7541 §5.2, Appendix B); padded with the most significant bits of EOS (1s).
pub fn huff_encode(data: &[u8]) -> Vec<u8> {
    let mut out = Vec::with_capacity(data.len());
    let mut acc: u64 = 0;
    let mut nbits: u32 = 0;
    for &b in data {
        let (code, len) = HUFFMAN[b as usize];
        acc = (acc << len) | code as u64;
        nbits += len as u32;
        while nbits >= 8 {
            out.push((acc >> (nbits - 8)) as u8);
            nbits -= 8;
        }
        acc &= (1u64 << nbits) - 1;
    }
    if nbits > 0 {
        let pad = 8 - nbits;
        out.push(((acc << pad) | ((1u64 << pad) - 1)) as u8);
    }
    out
}

/// String literal (RFC 7541 §5.2): H bit, 7-bit-prefix length, octets.
pub fn enc_string(out: &mut Vec<u8>, s: &[u8], huffman: bool) {
    if huffman {
        let h = huff_encode(s);
        enc_int(out, 7, 0x80, h.len() as u64);
        out.extend_from_slice(&h);
    } else {
        enc_int(out, 7, 0x00, s.len() as u64);
        out.extend_from_slice(s);
    }
}

// ------------------------------------------------------------------------------------------------
// dynamic table (shared by encoder and decoder)
// ------------------------------------------------------------------------------------------------

#[derive(Clone, Debug)]
pub struct DynTable {
    /// newest first
    pub entries: VecDeque<(Vec<u8>, Vec<u8>)>,
    pub size: usize,
    pub max_size: usize,
}

impl DynTable {
    pub fn new(max_size: usize) -> DynTable {
        DynTable { entries: VecDeque::new(), size: 0, max_size }
    }
    fn evict(&mut self) {
        while self.size > self.max_size {
            match self.entries.pop_back() {
                Some((n, v)) => self.size -= n.len() + v.len() + 32,
                None => {
                    self.size = 0;
                    break;
                }
            }
        }
    }
    /// RFC 7541 §4.4: evict until the new entry fits; an entry larger than the table empties it.
    pub fn insert(&mut self, name: &[u8], value: &[u8]) {
        self.size += name.len() + value.len() + 32;
        self.entries.push_front((name.to_vec(), value.to_vec()));
        self.evict();
    }
    pub fn set_max(&mut self, n: usize) {
        self.max_size = n;
        self.evict();
    }
    /// 1-based index over static (1..=61) then dynamic (62..) tables.
    pub fn get(&self, index: usize, static15_quirk: bool) -> Option<(Vec<u8>, Vec<u8>)> {
        if index == 0 {
            return None;
        }
        if index <= 61 {
            let (n, v) = STATIC_TABLE[index - 1];
            if static15_quirk && index == 15 {
                return Some((b"accept-".to_vec(), Vec::new()));
            }
            return Some((n.as_bytes().to_vec(), v.as_bytes().to_vec()));
        }
        self.entries.get(index - 62).cloned()
    }
}

// ------------------------------------------------------------------------------------------------
// HPACK encoder
// ------------------------------------------------------------------------------------------------

#[derive(Clone, Copy, Debug, PartialEq, Eq)]
pub enum Indexing {
    /// RFC 7541 §6.2.1 (pattern 01, 6-bit prefix) — inserts into the dynamic table
    Incremental,
    /// §6.2.2 (pattern 0000, 4-bit prefix)
    Without,
    /// §6.2.3 (pattern 0001, 4-bit prefix)
    Never,
}

#[derive(Clone, Copy, Debug, PartialEq, Eq)]
pub enum Repr {
    /// §6.1 indexed field if (name, value) is in a table; else literal with incremental indexing
    /// (name indexed if possible, plain strings).
    Indexed,
    Literal {
        indexing: Indexing,
        /// send the name as an index when the name occurs in a table (else literal name)
        name_ref: bool,
        huff_name: bool,
        huff_value: bool,
    },
}

impl Repr {
    pub const fn lit(indexing: Indexing, name_ref: bool, huff: bool) -> Repr {
        Repr::Literal { indexing, name_ref, huff_name: huff, huff_value: huff }
    }
    /// Plain literal without indexing, literal name: the simplest form.
    pub const PLAIN: Repr = Repr::Literal { indexing: Indexing::Without, name_ref: false, huff_name: false, huff_value: false };
}

/// What `Encoder::field` really emitted (for bucket names and finding preconditions).
#[derive(Clone, Copy, Debug, PartialEq, Eq)]
pub struct Used {
    /// 0 = indexed field, 1 = incremental, 2 = without, 3 = never
    pub kind: u8,
    /// index used for the whole field or for the name; 0 = literal name
    pub index: usize,
    pub huff_name: bool,
    pub huff_value: bool,
}

impl Used {
    pub fn class(&self) -> String {
        let k = ["idx", "inc", "wo", "never"][self.kind as usize];
        let r = if self.index == 0 {
            "lit"
        } else if self.index <= 61 {
            "st"
        } else {
            "dyn"
        };
        let h = match (self.kind, self.huff_name, self.huff_value) {
            (0, _, _) => "",
            (_, false, false) => "-pp",
            (_, true, false) => "-hp",
            (_, false, true) => "-ph",
            (_, true, true) => "-hh",
        };
        format!("{k}/{r}{h}")
    }
}

#[derive(Clone, Debug)]
pub struct Encoder {
    pub table: DynTable,
    /// when several table entries match, take the highest index (most likely a dynamic/older one)
    /// instead of the lowest
    pub prefer_high_index: bool,
    /// number of redundant continuation octets added to multi-octet integers (legal, non-minimal)
    pub int_pad: u8,
    /// log of what each `field` call emitted
    pub used: Vec<Used>,
}

impl Default for Encoder {
    fn default() -> Self {
        Encoder::new()
    }
}

impl Encoder {
    pub fn new() -> Encoder {
        Encoder::with_table_size(4096)
    }
    pub fn with_table_size(n: usize) -> Encoder {
        Encoder { table: DynTable::new(n), prefer_high_index: false, int_pad: 0, used: Vec::new() }
    }

    /// all indices whose entry equals (name, value)
    pub fn find_full(&self, name: &[u8], value: &[u8]) -> Vec<usize> {
        let mut v = Vec::new();
        for (i, (n, val)) in STATIC_TABLE.iter().enumerate() {
            if n.as_bytes() == name && val.as_bytes() == value {
                v.push(i + 1);
            }
        }
        for (i, (n, val)) in self.table.entries.iter().enumerate() {
            if n == name && val == value {
                v.push(62 + i);
            }
        }
        v
    }
    /// all indices whose entry has this name
    pub fn find_name(&self, name: &[u8]) -> Vec<usize> {
        let mut v = Vec::new();
        for (i, (n, _)) in STATIC_TABLE.iter().enumerate() {
            if n.as_bytes() == name {
                v.push(i + 1);
            }
        }
        for (i, (n, _)) in self.table.entries.iter().enumerate() {
            if n == name {
                v.push(62 + i);
            }
        }
        v
    }
    fn choose(&self, c: &[usize]) -> Option<usize> {
        if c.is_empty() {
            None
        } else if self.prefer_high_index {
            c.last().copied()
        } else {
            c.first().copied()
        }
    }

    /// §6.3 dynamic table size update (only legal at the start of a header block).
    pub fn size_update(&mut self, out: &mut Vec<u8>, new_max: usize) {
        enc_int_padded(out, 5, 0x20, new_max as u64, self.int_pad);
        self.table.set_max(new_max);
    }

    /// Emit an indexed field for an explicit index (caller guarantees that it exists).
    pub fn raw_indexed(&mut self, out: &mut Vec<u8>, index: usize) {
        enc_int_padded(out, 7, 0x80, index as u64, self.int_pad);
        self.used.push(Used { kind: 0, index, huff_name: false, huff_value: false });
    }

    /// Emit a literal with an explicit name index (0 = literal name).
    pub fn raw_literal(
        &mut self,
        out: &mut Vec<u8>,
        indexing: Indexing,
        name_index: usize,
        name: &[u8],
        value: &[u8],
        huff_name: bool,
        huff_value: bool,
    ) {
        let (prefix, high, kind) = match indexing {
            Indexing::Incremental => (6, 0x40, 1),
            Indexing::Without => (4, 0x00, 2),
            Indexing::Never => (4, 0x10, 3),
        };
        enc_int_padded(out, prefix, high, name_index as u64, self.int_pad);
        if name_index == 0 {
            enc_string(out, name, huff_name);
        }
        enc_string(out, value, huff_value);
        if indexing == Indexing::Incremental {
            self.table.insert(name, value);
        }
        self.used.push(Used { kind, index: name_index, huff_name: name_index == 0 && huff_name, huff_value });
    }

    /// Encode one header field with the requested representation.
    pub fn field(&mut self, out: &mut Vec<u8>, name: &[u8], value: &[u8], repr: Repr) -> Used {
        match repr {
            Repr::Indexed => {
                if let Some(i) = self.choose(&self.find_full(name, value)) {
                    self.raw_indexed(out, i);
                } else {
                    let ni = self.choose(&self.find_name(name)).unwrap_or(0);
                    self.raw_literal(out, Indexing::Incremental, ni, name, value, false, false);
                }
            }
            Repr::Literal { indexing, name_ref, huff_name, huff_value } => {
                let ni = if name_ref { self.choose(&self.find_name(name)).unwrap_or(0) } else { 0 };
                self.raw_literal(out, indexing, ni, name, value, huff_name, huff_value);
            }
        }
        *self.used.last().expect("field logged")
    }

    /// Encode a list of fields (no size update).
    pub fn block<N: AsRef<[u8]>, V: AsRef<[u8]>>(&mut self, fields: &[(N, V, Repr)]) -> Vec<u8> {
        let mut out = Vec::new();
        for (n, v, r) in fields {
            self.field(&mut out, n.as_ref(), v.as_ref(), *r);
        }
        out
    }
}

/// One header block from a fresh encoder (default 4096-octet table).
pub fn encode_block<N: AsRef<[u8]>, V: AsRef<[u8]>>(fields: &[(N, V, Repr)]) -> Vec<u8> {
    Encoder::new().block(fields)
}

// ------------------------------------------------------------------------------------------------
// HPACK decoder (RFC 7541 §3, §5, §6) — for round-trip checks and deviation models
// ------------------------------------------------------------------------------------------------

#[derive(Clone, Debug)]
pub struct Decoder {
    pub table: DynTable,
    /// model of a decoder whose static entry 15 reads "accept-" instead of "accept-charset"
    pub static15_quirk: bool,
}

fn dec_int(buf: &[u8], prefix_bits: u8) -> Result<(usize, usize), String> {
    if buf.is_empty() {
        return Err("integer: no octets".into());
    }
    let mask: usize = (1usize << prefix_bits) - 1;
    let mut value = buf[0] as usize & mask;
    if value < mask {
        return Ok((value, 1));
    }
    let mut total = 1usize;
    let mut m = 0u32;
    for &b in &buf[1..] {
        total += 1;
        value += ((b & 127) as usize) << m;
        m += 7;
        if b & 128 == 0 {
            return Ok((value, total));
        }
        // at most 5 octets in total (prefix + 4), as common decoders enforce
        if total == 5 {
            return Err("integer: too many octets".into());
        }
    }
    Err("integer: truncated".into())
}

/// Huffman decoding with the RFC 7541 §5.2 error rules: EOS inside the string, padding longer
/// than 7 bits or not made of 1-bits are errors.
pub fn huff_decode(data: &[u8]) -> Result<Vec<u8>, String> {
    use std::collections::HashMap;
    use std::sync::OnceLock;
    static MAP: OnceLock<HashMap<(u8, u32), u16>> = OnceLock::new();
    let map = MAP.get_or_init(|| {
        let mut m = HashMap::new();
        for (sym, (code, len)) in HUFFMAN.iter().enumerate() {
            m.insert((*len, *code), sym as u16);
        }
        m
    });
    let mut out = Vec::new();
    let mut cur: u32 = 0;
    let mut len: u8 = 0;
    for &byte in data {
        for bit in (0..8).rev() {
            cur = (cur << 1) | ((byte >> bit) & 1) as u32;
            len += 1;
            if len >= 5 {
                if let Some(sym) = map.get(&(len, cur)) {
                    if *sym == 256 {
                        return Err("huffman: EOS in string".into());
                    }
                    out.push(*sym as u8);
                    cur = 0;
                    len = 0;
                }
            }
        }
    }
    if len > 7 {
        return Err("huffman: padding too long".into());
    }
    if len > 0 && cur != (1u32 << len) - 1 {
        return Err("huffman: padding is not a prefix of EOS".into());
    }
    Ok(out)
}

fn dec_string(buf: &[u8]) -> Result<(Vec<u8>, usize), String> {
    let (len, used) = dec_int(buf, 7)?;
    if used + len > buf.len() {
        return Err("string: truncated".into());
    }
    let raw = &buf[used..used + len];
    if buf[0] & 0x80 != 0 {
        Ok((huff_decode(raw)?, used + len))
    } else {
        Ok((raw.to_vec(), used + len))
    }
}

impl Default for Decoder {
    fn default() -> Self {
        Decoder::new()
    }
}

impl Decoder {
    pub fn new() -> Decoder {
        Decoder { table: DynTable::new(4096), static15_quirk: false }
    }
    fn literal(&self, buf: &[u8], prefix: u8) -> Result<((Vec<u8>, Vec<u8>), usize), String> {
        let (idx, mut used) = dec_int(buf, prefix)?;
        let name = if idx == 0 {
            let (n, l) = dec_string(&buf[used..])?;
            used += l;
            n
        } else {
            self.table.get(idx, self.static15_quirk).ok_or("index out of bounds")?.0
        };
        let (v, l) = dec_string(&buf[used..])?;
        used += l;
        Ok(((name, v), used))
    }
    /// Decode a complete header block into its header list.
    pub fn decode(&mut self, buf: &[u8]) -> Result<Vec<(Vec<u8>, Vec<u8>)>, String> {
        let mut out = Vec::new();
        let mut i = 0usize;
        while i < buf.len() {
            let b = buf[i];
            let rest = &buf[i..];
            if b & 0x80 != 0 {
                let (idx, used) = dec_int(rest, 7)?;
                let e = self.table.get(idx, self.static15_quirk).ok_or("index out of bounds")?;
                out.push(e);
                i += used;
            } else if b & 0x40 != 0 {
                let ((n, v), used) = self.literal(rest, 6)?;
                self.table.insert(&n, &v);
                out.push((n, v));
                i += used;
            } else if b & 0x20 != 0 {
                let (n, used) = dec_int(rest, 5)?;
                self.table.set_max(n);
                i += used;
            } else {
                let ((n, v), used) = self.literal(rest, 4)?;
                out.push((n, v));
                i += used;
            }
        }
        Ok(out)
    }
}

// ------------------------------------------------------------------------------------------------
// HTTP/2 frames
// ------------------------------------------------------------------------------------------------

/// 9-octet frame header + payload.  Bit 31 of `stream` is written as the reserved bit.
pub fn frame(ftype: u8, flags: u8, stream: u32, payload: &[u8]) -> Vec<u8> {
    assert!(payload.len() < (1 << 24), "frame payload too long");
    let mut v = Vec::with_capacity(9 + payload.len());
    let l = payload.len() as u32;
    v.extend_from_slice(&[(l >> 16) as u8, (l >> 8) as u8, l as u8, ftype, flags]);
    v.extend_from_slice(&stream.to_be_bytes());
    v.extend_from_slice(payload);
    v
}

pub fn settings_payload(pairs: &[(u16, u32)]) -> Vec<u8> {
    let mut p = Vec::with_capacity(pairs.len() * 6);
    for (id, val) in pairs {
        p.extend_from_slice(&id.to_be_bytes());
        p.extend_from_slice(&val.to_be_bytes());
    }
    p
}

/// SETTINGS on stream 0 with arbitrary (identifier, value) pairs in the given order.
pub fn settings(pairs: &[(u16, u32)]) -> Vec<u8> {
    frame(T_SETTINGS, 0, 0, &settings_payload(pairs))
}

pub fn settings_ack() -> Vec<u8> {
    frame(T_SETTINGS, F_ACK, 0, &[])
}

/// WINDOW_UPDATE; `increment_raw` is written as 32 bits (bit 31 = reserved bit).
pub fn window_update(stream: u32, increment_raw: u32) -> Vec<u8> {
    frame(T_WINDOW_UPDATE, 0, stream, &increment_raw.to_be_bytes())
}

#[derive(Clone, Copy, Debug, PartialEq, Eq)]
pub struct PrioritySpec {
    pub exclusive: bool,
    pub dependency: u32,
    /// wire value 0..=255 (meaning weight 1..=256)
    pub weight: u8,
}

impl PrioritySpec {
    pub fn bytes(&self) -> [u8; 5] {
        let d = (self.dependency & 0x7fff_ffff) | if self.exclusive { 0x8000_0000 } else { 0 };
        let b = d.to_be_bytes();
        [b[0], b[1], b[2], b[3], self.weight]
    }
}

pub fn priority(stream: u32, p: PrioritySpec) -> Vec<u8> {
    frame(T_PRIORITY, 0, stream, &p.bytes())
}

pub fn ping(ack: bool, data: [u8; 8]) -> Vec<u8> {
    frame(T_PING, if ack { F_ACK } else { 0 }, 0, &data)
}

pub fn rst_stream(stream: u32, code: u32) -> Vec<u8> {
    frame(T_RST_STREAM, 0, stream, &code.to_be_bytes())
}

pub fn goaway(last_stream: u32, code: u32, debug: &[u8]) -> Vec<u8> {
    let mut p = last_stream.to_be_bytes().to_vec();
    p.extend_from_slice(&code.to_be_bytes());
    p.extend_from_slice(debug);
    frame(T_GOAWAY, 0, 0, &p)
}

/// DATA frame, optionally padded.
pub fn data(stream: u32, body: &[u8], end_stream: bool, pad: Option<u8>) -> Vec<u8> {
    let mut flags = if end_stream { F_END_STREAM } else { 0 };
    let mut p = Vec::new();
    if let Some(n) = pad {
        flags |= F_PADDED;
        p.push(n);
        p.extend_from_slice(body);
        p.extend(std::iter::repeat(0u8).take(n as usize));
    } else {
        p.extend_from_slice(body);
    }
    frame(T_DATA, flags, stream, &p)
}

#[derive(Clone, Debug)]
pub struct HeadersOpts {
    pub stream: u32,
    pub end_stream: bool,
    /// Some(n): PADDED flag, Pad Length n, n padding octets after the fragment
    pub pad: Option<u8>,
    /// PRIORITY flag with the 5 priority octets
    pub priority: Option<PrioritySpec>,
    /// Byte positions (0..=block.len(), ascending, repeats allowed) at which the header block is
    /// cut; k cuts give HEADERS + k CONTINUATION frames.  Empty = single HEADERS with END_HEADERS.
    pub cuts: Vec<usize>,
}

impl HeadersOpts {
    pub fn plain(stream: u32) -> HeadersOpts {
        HeadersOpts { stream, end_stream: true, pad: None, priority: None, cuts: Vec::new() }
    }
    pub fn framing_class(&self) -> &'static str {
        match (self.pad.is_some(), self.priority.is_some(), !self.cuts.is_empty()) {
            (false, false, false) => "plain",
            (true, false, false) => "padded",
            (false, true, false) => "priority",
            (true, true, false) => "padded+priority",
            (false, false, true) => "cont",
            (true, false, true) => "padded+cont",
            (false, true, true) => "priority+cont",
            (true, true, true) => "padded+priority+cont",
        }
    }
}

/// HEADERS (+ CONTINUATION) frames carrying `block` (RFC 7540 §6.2, §6.10).
pub fn headers_frames(block: &[u8], o: &HeadersOpts) -> Vec<u8> {
    let mut cuts: Vec<usize> = o.cuts.iter().map(|c| (*c).min(block.len())).collect();
    cuts.sort_unstable();
    let mut bounds = vec![0usize];
    bounds.extend(cuts.iter().copied());
    bounds.push(block.len());
    let nfrag = bounds.len() - 1;
    let mut out = Vec::new();
    for k in 0..nfrag {
        let frag = &block[bounds[k]..bounds[k + 1]];
        let last = k + 1 == nfrag;
        if k == 0 {
            let mut flags = 0u8;
            if o.end_stream {
                flags |= F_END_STREAM;
            }
            if last {
                flags |= F_END_HEADERS;
            }
            let mut p = Vec::with_capacity(frag.len() + 6 + o.pad.unwrap_or(0) as usize);
            if let Some(n) = o.pad {
                flags |= F_PADDED;
                p.push(n);
            }
            if let Some(pr) = o.priority {
                flags |= F_PRIORITY;
                p.extend_from_slice(&pr.bytes());
            }
            p.extend_from_slice(frag);
            if let Some(n) = o.pad {
                p.extend(std::iter::repeat(0u8).take(n as usize));
            }
            out.extend_from_slice(&frame(T_HEADERS, flags, o.stream, &p));
        } else {
            out.extend_from_slice(&frame(T_CONTINUATION, if last { F_END_HEADERS } else { 0 }, o.stream, frag));
        }
    }
    out
}

/// Client side: preface, `pre` (already framed control frames), the header block, `post`.
pub fn request_bytes(pre: &[u8], block: &[u8], o: &HeadersOpts, post: &[u8]) -> Vec<u8> {
    let mut v = PREFACE.to_vec();
    v.extend_from_slice(pre);
    v.extend_from_slice(&headers_frames(block, o));
    v.extend_from_slice(post);
    v
}

/// Server side: no preface.
pub fn response_bytes(pre: &[u8], block: &[u8], o: &HeadersOpts, post: &[u8]) -> Vec<u8> {
    let mut v = pre.to_vec();
    v.extend_from_slice(&headers_frames(block, o));
    v.extend_from_slice(post);
    v
}

/// A typical request: preface, SETTINGS, WINDOW_UPDATE, HEADERS(END_HEADERS|END_STREAM) on stream 1;
/// fields are indexed when possible, else literal with incremental indexing and Huffman strings.
pub fn simple_request(headers: &[(&str, &str)]) -> Vec<u8> {
    let mut enc = Encoder::new();
    let mut block = Vec::new();
    for (n, v) in headers {
        let r = if enc.find_full(n.as_bytes(), v.as_bytes()).is_empty() {
            Repr::lit(Indexing::Incremental, true, true)
        } else {
            Repr::Indexed
        };
        enc.field(&mut block, n.as_bytes(), v.as_bytes(), r);
    }
    let mut pre = settings(&[(1, 65536), (3, 1000), (4, 6291456), (6, 262144)]);
    pre.extend_from_slice(&window_update(0, 15663105));
    request_bytes(&pre, &block, &HeadersOpts::plain(1), &[])
}

/// A typical response: SETTINGS, SETTINGS ACK, HEADERS(END_HEADERS) on stream 1, DATA.
pub fn simple_response(headers: &[(&str, &str)], body: &[u8]) -> Vec<u8> {
    let mut enc = Encoder::new();
    let mut block = Vec::new();
    for (n, v) in headers {
        let r = if enc.find_full(n.as_bytes(), v.as_bytes()).is_empty() {
            Repr::lit(Indexing::Incremental, true, true)
        } else {
            Repr::Indexed
        };
        enc.field(&mut block, n.as_bytes(), v.as_bytes(), r);
    }
    let mut pre = settings(&[(3, 100), (4, 65536)]);
    pre.extend_from_slice(&settings_ack());
    let mut o = HeadersOpts::plain(1);
    o.end_stream = body.is_empty();
    let post = if body.is_empty() { Vec::new() } else { data(1, body, true, None) };
    response_bytes(&pre, &block, &o, &post)
}

// ------------------------------------------------------------------------------------------------
// independent frame splitter
// ------------------------------------------------------------------------------------------------

#[derive(Clone, Debug, PartialEq, Eq)]
pub struct RawFrame {
    pub ftype: u8,
    pub flags: u8,
    /// stream identifier with the reserved bit cleared
    pub stream: u32,
    pub payload: Vec<u8>,
    /// offset of the frame header in the input and offset one past the payload
    pub start: usize,
    pub end: usize,
}

/// Split `data` into complete frames; stops at the first incomplete frame or at a frame longer
/// than `max_len` (a receiver with that SETTINGS_MAX_FRAME_SIZE would stop there).
pub fn split_frames(data: &[u8], max_len: usize) -> Vec<RawFrame> {
    let mut v = Vec::new();
    let mut i = 0usize;
    while data.len() - i >= 9 {
        let len = ((data[i] as usize) << 16) | ((data[i + 1] as usize) << 8) | data[i + 2] as usize;
        if len > max_len || data.len() - i - 9 < len {
            break;
        }
        let stream = u32::from_be_bytes([data[i + 5], data[i + 6], data[i + 7], data[i + 8]]) & 0x7fff_ffff;
        v.push(RawFrame {
            ftype: data[i + 3],
            flags: data[i + 4],
            stream,
            payload: data[i + 9..i + 9 + len].to_vec(),
            start: i,
            end: i + 9 + len,
        });
        i += 9 + len;
    }
    v
}

/// The header block fragment of a HEADERS frame per RFC 7540 §6.2 (Pad Length, priority fields and
/// padding removed); None if the lengths are inconsistent.
pub fn headers_fragment(f: &RawFrame) -> Option<Vec<u8>> {
    let mut p: &[u8] = &f.payload;
    let mut pad = 0usize;
    if f.flags & F_PADDED != 0 {
        pad = *p.first()? as usize;
        p = &p[1..];
    }
    if f.flags & F_PRIORITY != 0 {
        if p.len() < 5 {
            return None;
        }
        p = &p[5..];
    }
    if pad > p.len() {
        return None;
    }
    Some(p[..p.len() - pad].to_vec())
}

// ------------------------------------------------------------------------------------------------
// self-check (RFC 7541 Appendix C)
// ------------------------------------------------------------------------------------------------

fn unhex(s: &str) -> Vec<u8> {
    let d: Vec<u8> = s.bytes().filter(|c| c.is_ascii_hexdigit()).collect();
    d.chunks(2).map(|c| u8::from_str_radix(std::str::from_utf8(c).unwrap(), 16).unwrap()).collect()
}

fn check_seq(table_size: usize, huff: bool, steps: &[(&[(&str, &str, Repr)], &str)], what: &str) {
    let mut enc = Encoder::with_table_size(table_size);
    let mut dec = Decoder::new();
    dec.table.set_max(table_size);
    for (k, (fields, hex)) in steps.iter().enumerate() {
        let _ = huff;
        let got = enc.block(fields);
        assert_eq!(got, unhex(hex), "h2gen self-check {what} step {k}: encoder output differs from RFC 7541");
        let list = dec.decode(&got).unwrap_or_else(|e| panic!("h2gen self-check {what} step {k}: decoder: {e}"));
        let want: Vec<(Vec<u8>, Vec<u8>)> =
            fields.iter().map(|(n, v, _)| (n.as_bytes().to_vec(), v.as_bytes().to_vec())).collect();
        assert_eq!(list, want, "h2gen self-check {what} step {k}: round trip");
        assert_eq!(enc.table.entries, dec.table.entries, "h2gen self-check {what} step {k}: tables");
    }
}

/// Panics (harness error, not a verdict) if the encoder/decoder disagree with RFC 7541 Appendix C.
pub fn self_check() {
    // Appendix B sanity: complete prefix code (Kraft equality), EOS = 30 ones
    let mut kraft: u64 = 0;
    for (_, l) in HUFFMAN.iter() {
        kraft += 1u64 << (32 - *l as u32);
    }
    assert_eq!(kraft, 1u64 << 32, "h2gen: Huffman table is not a complete prefix code");
    assert_eq!(HUFFMAN[256], (0x3fff_ffff, 30));
    assert_eq!(STATIC_TABLE[14].0, "accept-charset");
    assert_eq!(STATIC_TABLE[60].0, "www-authenticate");

    // C.1 integers
    let mut o = Vec::new();
    enc_int(&mut o, 5, 0, 10);
    assert_eq!(o, [0x0a]);
    o.clear();
    enc_int(&mut o, 5, 0, 1337);
    assert_eq!(o, [0x1f, 0x9a, 0x0a]);
    o.clear();
    enc_int(&mut o, 8, 0, 42);
    assert_eq!(o, [0x2a]);
    o.clear();
    enc_int_padded(&mut o, 5, 0, 1337, 2);
    assert_eq!(dec_int(&o, 5).unwrap(), (1337, 5));
    for p in 1..=8u8 {
        for v in [0u64, 1, 2, 14, 15, 16, 30, 31, 32, 62, 63, 64, 126, 127, 128, 254, 255, 256, 16383, 16384, 16510, 16511, 16512, 2_097_151, 2_097_152, 70_000_000] {
            o.clear();
            enc_int(&mut o, p, 0, v);
            assert_eq!(dec_int(&o, p).unwrap(), (v as usize, o.len()), "int round trip p={p} v={v}");
        }
    }

    let inc = |name_ref: bool, huff: bool| Repr::lit(Indexing::Incremental, name_ref, huff);
    // C.2.1 - C.2.4
    check_seq(4096, false, &[(&[("custom-key", "custom-header", inc(false, false))], "400a 6375 7374 6f6d 2d6b 6579 0d63 7573 746f 6d2d 6865 6164 6572")], "C.2.1");
    check_seq(4096, false, &[(&[(":path", "/sample/path", Repr::lit(Indexing::Without, true, false))], "040c 2f73 616d 706c 652f 7061 7468")], "C.2.2");
    check_seq(4096, false, &[(&[("password", "secret", Repr::lit(Indexing::Never, false, false))], "1008 7061 7373 776f 7264 0673 6563 7265 74")], "C.2.3");
    check_seq(4096, false, &[(&[(":method", "GET", Repr::Indexed)], "82")], "C.2.4");

    // C.3 / C.4 request sequences on one connection
    for huff in [false, true] {
        let i = Repr::Indexed;
        let l = inc(true, huff);
        let n = inc(false, huff);
        let r1: &[(&str, &str, Repr)] =
            &[(":method", "GET", i), (":scheme", "http", i), (":path", "/", i), (":authority", "www.example.com", l)];
        let r2: &[(&str, &str, Repr)] = &[
            (":method", "GET", i),
            (":scheme", "http", i),
            (":path", "/", i),
            (":authority", "www.example.com", i),
            ("cache-control", "no-cache", l),
        ];
        let r3: &[(&str, &str, Repr)] = &[
            (":method", "GET", i),
            (":scheme", "https", i),
            (":path", "/index.html", i),
            (":authority", "www.example.com", i),
            ("custom-key", "custom-value", n),
        ];
        let hex: [&str; 3] = if huff {
            [
                "8286 8441 8cf1 e3c2 e5f2 3a6b a0ab 90f4 ff",
                "8286 84be 5886 a8eb 1064 9cbf",
                "8287 85bf 4088 25a8 49e9 5ba9 7d7f 8925 a849 e95b b8e8 b4bf",
            ]
        } else {
            [
                "8286 8441 0f77 7777 2e65 7861 6d70 6c65 2e63 6f6d",
                "8286 84be 5808 6e6f 2d63 6163 6865",
                "8287 85bf 400a 6375 7374 6f6d 2d6b 6579 0c63 7573 746f 6d2d 7661 6c75 65",
            ]
        };
        check_seq(4096, huff, &[(r1, hex[0]), (r2, hex[1]), (r3, hex[2])], if huff { "C.4" } else { "C.3" });
    }

    // C.5 / C.6 response sequences with a 256-octet table (evictions)
    for huff in [false, true] {
        let i = Repr::Indexed;
        let l = inc(true, huff);
        let date1 = "Mon, 21 Oct 2013 20:13:21 GMT";
        let date2 = "Mon, 21 Oct 2013 20:13:22 GMT";
        let loc = "https://www.example.com";
        let ck = "foo=ASDJKHQKBZXOQWEOPIUAXQWEOIU; max-age=3600; version=1";
        let r1: &[(&str, &str, Repr)] =
            &[(":status", "302", l), ("cache-control", "private", l), ("date", date1, l), ("location", loc, l)];
        let r2: &[(&str, &str, Repr)] =
            &[(":status", "307", l), ("cache-control", "private", i), ("date", date1, i), ("location", loc, i)];
        let r3: &[(&str, &str, Repr)] = &[
            (":status", "200", i),
            ("cache-control", "private", i),
            ("date", date2, l),
            ("location", loc, i),
            ("content-encoding", "gzip", l),
            ("set-cookie", ck, l),
        ];
        let hex: [&str; 3] = if huff {
            [
                "4882 6402 5885 aec3 771a 4b61 96d0 7abe 9410 54d4 44a8 2005 9504 0b81 66e0 82a6 2d1b ff6e 919d 29ad 1718 63c7 8f0b 97c8 e9ae 82ae 43d3",
                "4883 640e ffc1 c0bf",
                "88c1 6196 d07a be94 1054 d444 a820 0595 040b 8166 e084 a62d 1bff c05a 839b d9ab 77ad 94e7 821d d7f2 e6c7 b335 dfdf cd5b 3960 d5af 2708 7f36 72c1 ab27 0fb5 291f 9587 3160 65c0 03ed 4ee5 b106 3d50 07",
            ]
        } else {
            [
                "4803 3330 3258 0770 7269 7661 7465 611d 4d6f 6e2c 2032 3120 4f63 7420 3230 3133 2032 303a 3133 3a32 3120 474d 546e 1768 7474 7073 3a2f 2f77 7777 2e65 7861 6d70 6c65 2e63 6f6d",
                "4803 3330 37c1 c0bf",
                "88c1 611d 4d6f 6e2c 2032 3120 4f63 7420 3230 3133 2032 303a 3133 3a32 3220 474d 54c0 5a04 677a 6970 7738 666f 6f3d 4153 444a 4b48 514b 425a 584f 5157 454f 5049 5541 5851 5745 4f49 553b 206d 6178 2d61 6765 3d33 3630 303b 2076 6572 7369 6f6e 3d31",
            ]
        };
        check_seq(256, huff, &[(r1, hex[0]), (r2, hex[1]), (r3, hex[2])], if huff { "C.6" } else { "C.5" });
    }

    // Huffman round trip over all octets, and the error rules
    let all: Vec<u8> = (0..=255u8).collect();
    assert_eq!(huff_decode(&huff_encode(&all)).unwrap(), all);
    assert!(huff_decode(&[0xff, 0xff, 0xff, 0xff]).is_err());
    assert!(huff_decode(&[0x00]).is_err()); // '0' (00000) + padding 000
    assert_eq!(huff_decode(&[0x07]).unwrap(), b"0");

    // framing
    let blk = encode_block(&[(":method", "GET", Repr::Indexed), ("x", "y", Repr::PLAIN)]);
    let mut o = HeadersOpts::plain(3);
    o.pad = Some(7);
    o.priority = Some(PrioritySpec { exclusive: true, dependency: 5, weight: 200 });
    o.cuts = vec![1, 1, 3];
    let bytes = headers_frames(&blk, &o);
    let fr = split_frames(&bytes, MAX_FRAME);
    assert_eq!(fr.len(), 4);
    assert_eq!(fr[0].flags, F_END_STREAM | F_PADDED | F_PRIORITY);
    assert_eq!(fr[3].flags, F_END_HEADERS);
    let mut re = headers_fragment(&fr[0]).unwrap();
    for f in &fr[1..] {
        assert_eq!(f.ftype, T_CONTINUATION);
        re.extend_from_slice(&f.payload);
    }
    assert_eq!(re, blk);
    assert_eq!(fr[0].payload[1..6], [0x80, 0, 0, 5, 200]);
}
