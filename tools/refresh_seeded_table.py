#!/usr/bin/env python3
"""Replaces the table between the seeded-table markers of DESIGN.md with the output of seeded_table.py."""
import subprocess
t = subprocess.run(['python3', '/verif/tools/seeded_table.py'], capture_output=True, text=True).stdout
p = '/verif/DESIGN.md'
s = open(p).read()
a = s.index('<!-- seeded-table-begin')
a = s.index('\n', a) + 1
b = s.index('<!-- seeded-table-end -->')
open(p, 'w').write(s[:a] + t + s[b:])
