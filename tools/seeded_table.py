#!/usr/bin/env python3
"""Prints the markdown table of seeded changes (DESIGN.md 11.6) from /verif/seeded/*/meta.json."""
import json, glob, os
rows = []
for d in sorted(glob.glob('/verif/seeded/*/')):
    name = os.path.basename(d.rstrip('/'))
    try:
        m = json.load(open(d + 'meta.json'))
    except Exception:
        continue
    ev = m.get('owning_check_quick', '')
    caught = 'exit=1 ' in ev
    summ = (m.get('summary') or '').replace('|', '/').replace('\n', ' ')
    need = (m.get('needs_to_manifest') or '').replace('|', '/').replace('\n', ' ')
    extra = m.get('also_caught_by', '')
    note = m.get('note', '')
    rows.append((name, summ[:260], need[:200], ('caught by ' + m['property'] + (', ' + extra if extra else '')) if caught else 'MISSED', note))
print('| seeded change | what it breaks | needs to manifest | quick-tier result | note |')
print('|---|---|---|---|---|')
for r in rows:
    print('| ' + ' | '.join(r) + ' |')
