#!/usr/bin/env python3
"""reconfirm_seeded.py [--slots N] [pattern ...] — re-runs selftest/confirm_seeded.sh for the seeded changes on
/repo's current HEAD (demonstration passes without the change and fails with it; suite 464 passed / 1 failed)
in N parallel confirmation slots and prints one line per change; writes the verdict to meta.json
(`confirmed_by_maintainer_of_verif`, `confirmed_at_commit`)."""
import glob, json, os, subprocess, sys, threading, queue
args = sys.argv[1:]
slots = 4
if args and args[0] == '--slots':
    slots = int(args[1]); args = args[2:]
pats = args or ['C*-[A-Z]']
dirs = sorted({d for p in pats for d in glob.glob('/verif/seeded/' + p) if os.path.exists(d + '/meta.json')})
head = subprocess.run(['git', '-C', '/repo', 'rev-parse', '--short', 'HEAD'], capture_output=True, text=True).stdout.strip()
q = queue.Queue()
for d in dirs:
    q.put(d)
bad = []
lock = threading.Lock()
def worker(slot):
    env = dict(os.environ, CONFIRM_SLOT=str(20 + slot))
    while True:
        try:
            d = q.get_nowait()
        except queue.Empty:
            return
        out = subprocess.run(['/verif/selftest/confirm_seeded.sh', d], capture_output=True, text=True, env=env).stdout.strip().splitlines()
        verdict = next((l for l in out if l.startswith('CONFIRMED') or l.startswith('REJECTED')), out[-1] if out else 'no output')
        m = json.load(open(d + '/meta.json'))
        m['confirmed_by_maintainer_of_verif'] = verdict
        m['confirmed_at_commit'] = head
        json.dump(m, open(d + '/meta.json', 'w'), indent=1)
        with lock:
            print(f"{os.path.basename(d)}: {verdict}"[:200], flush=True)
            if not verdict.startswith('CONFIRMED'):
                bad.append(os.path.basename(d))
ts = [threading.Thread(target=worker, args=(i,)) for i in range(slots)]
[t.start() for t in ts]
[t.join() for t in ts]
print('not confirmed:', sorted(bad))
