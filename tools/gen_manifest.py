#!/usr/bin/env python3
"""Regenerates /verif/MANIFEST.json from the table below (kept in one place so it stays valid)."""
import json, subprocess

HOOK_COMMITS = ["e830588", "a6f2056", "d667224"]

CHECKS = {
 "C01": dict(
  technique="runtime monitors under hostile workloads: panic hook with overflow checks and debug assertions, child-process death and per-call watchdog with isolated re-run, differential poison probes against fresh instances; Miri stage in the thorough tier",
  text="Exploration: ~2.5e6 (quick) / ~1e8 (thorough) hostile inputs: every truncation and (strided in quick) single-bit corruption of every packet of the four bundled captures and of synthesised connections, every (kind,length,position) TCP option encoding, IP header-length grids in three framings, complete HTTP/2 frames above the size limit, buffers and single 65000-octet segments filled with thousands of tiny records / frames (also through the pools' worker threads), a link-layer grid (every assigned EtherType and a stride over all others, stacked tags, loopback family words, on frames of 0..26 octets and full length), seeded structural mutation of frames, TLS/HTTP streams and database text; all go through the TCP/HTTP/TLS/unified analyzers with and without filters, the three pools, analyze_pcap, the incremental readers/extractors, parsers, hash functions and every FromStr. Any panic (incl. arithmetic overflow), abnormal process death or confirmed non-return is a violation; every 64 hostile frames, and right after each crafted half-finished connection (also between the probes' own hosts), a set of probe connections on reserved addresses must be analysed exactly as by a fresh instance (every fourth time: a fresh instance on a new thread); every 512 hostile byte streams a probe stream (TLS, HTTP/1, HTTP/2 with dynamic-table back-references, Akamai one-shot and incremental) must give the values taken on a new thread before any hostile stream, on the working thread and on another new thread; captures with refused record headers go through analyze_pcap under the watchdog. Held = none observed.",
  note="Non-termination is decided as bounded progress (20 s, then 60 s alone); memory safety only as far as the executed paths and Miri's reduced workload reach.",
  design="6 C01"),
 "C13": dict(
  technique="runtime oracle: synthesis of conforming traffic per bundled signature, packet-level analysis, and a p0f-level conformance predicate for earlier entries; dead signatures of the unchanged tree listed item by item as a known finding",
  text="Exploration: each of the 199 TCP and 99 HTTP bundled signatures is instantiated as packets/messages (TCP: IPv4/IPv6, hop counts 0..30, admissible MSS/scale values, windows realising the window form (for mss*N also with MSS 48..100), option bytes realising the layout, header bits realising exactly the quirks; 2000 variants per signature quick / 12000 thorough; HTTP: 16 variants over HTTP version, optional headers in/out, exact vs substring values, exact vs embedded software token, request method / response status, and -- for responses -- what the client did before: ordinary request, none, unlisted method, request after the response; CRLF or bare-LF line ends) and analysed at packet level; the best match must be the signature's own label or the label of an earlier entry the traffic conforms to; derived databases (bundled text with the sig lines of 1..3 labels per section commented out) must keep every own-label match of the bundled database. Held = every (signature, variant class) either reaches its label or is one of the 299 listed dead items.",
  note="Conformance predicate and synthesis are the harness' own (c13.rs); a listed item that becomes reachable is noted, not reported.",
  design="6 C13"),
 "C04": dict(
  technique="runtime oracle: reference JA4 computed from the generating ClientHello model (independent SHA-256) + metamorphic permutation/GREASE checks, through four entry points; deviation models for two known findings",
  text="Exploration: ~1.4e6 (quick) / ~1e8 (thorough) judged hellos: exhaustive grids (legacy versions x ordered supported_versions lists, cipher/extension counts around 99 and around 256, all two-byte alphanumeric ALPN names, session-id/compression/record-version grid), repeated cipher-suite and signature-algorithm values, all n! orders of ciphers and extensions for n<=5/6 plus random orders for long lists, every subset of a GREASE sample at every position of every list, runs of hellos that differ from their predecessor in one list only; JA4, JA4_r, JA4_o, JA4_ro, a/b/c parts and the separately reported fields are compared with the reference and across parse function, reader, packet analyzer and unified analyzer. Held = only the two listed known-finding deviations observed.",
  note="Reference in tlsgen.rs (checked against the FoxIO README example); version and ALPN characters are masked where the published text is ambiguous (see evidence assumptions).",
  design="6 C04"),
 "C05": dict(
  technique="runtime oracle: metamorphic body-independence check + RFC 7230/7231 reference model (h1ref.rs) on generated heads, parser level and packet path",
  text="Exploration: ~1.7e6 (quick) / ~8e7 (thorough) judged items: every generated head x ~25 body families (text with blank lines, header-like lines, binary, invalid and truncated UTF-8, 64 KiB) must parse to the canonical result of the head alone, directly and through scripted connections under five segmentations; start line, headers, cookies, referer, first-wins fields, language and the p0f signature are compared with the reference; methods x versions, status codes, every listed header name x casings x whitespace forms and all Accept-Language lists up to length 3 are enumerated completely. Held = no difference.",
  note="Header-name lists of the database crate are inputs to the reference; ambiguous sub-domains (LF-only heads, repeated Cookie, odd q-values, case variants' optional marks) are unjudged.",
  design="6 C05"),
 "C06": dict(
  technique="runtime oracle: print/parse round-trip over the enumerated vocabulary + independent line-oriented reader of p0f text (p0fref.rs) + fault injection",
  text="Exploration: ~9e6 (quick) / ~4.4e8 (thorough) judged items: every TTL/window/option/quirk form incl. all 65536 Distance pairs and layouts of length 0..40 round-trips value->text->value and line->value->line, all 298 bundled sig lines re-print identically, the bundled and 1e5 (quick) generated database texts load to exactly the content the reference reader sees (sections, labels, order, MTU groups, classes, ua_os), every fourth text again with an unknown section ([tcp:rst], [http], [tls:request] ...) inserted, which may be refused but must not change what the known sections hold, and ~130 single-fault texts must be rejected. Held = no difference.",
  note="Label Display round-trip and trailing junk after classes=/ua_os= are outside the judged domain.",
  design="6 C06"),
 "C08": dict(
  technique="runtime history monitor: per-segment return values of the incremental reader, of the packet-level TLS analyzer and of a TLS worker pool driven in lock-step, checked against the exactly-once-on-the-completing-segment rule and the one-segment result",
  text="Exploration: ~1.6e6 (quick) / ~1.9e8 (thorough) judged histories: every 2-partition of hellos from 60 B to 16 KiB, every 3-partition of small hellos, byte-by-byte and random k-partitions, near-limit records, bytes after the record in the same or later segments, and 17 kinds of non-ClientHello records, through TlsClientHelloReader::add_bytes and HuginnNetTls packets (IPv4/IPv6, fresh analyzer every 256 episodes), and segment by segment through a TLS worker pool (1/2/4 workers) with idle gaps of several worker time-outs between segments, bursts in which a busy worker finds the interleaved segments of several connections waiting (batches of 32/64), server data between two client segments; half of the packet episodes pad short Ethernet frames to the 60-octet minimum or append an FCS-like trailer. Held = every history had exactly one result on the completing segment equal to the single-segment one, and none otherwise.",
  note="A later segment that starts a valid handshake record (second ClientHello) is outside the judged domain; the per-worker stage needs hook H2.",
  design="6 C08"),
 "C16": dict(
  technique="runtime oracle: generator-as-reference (full HPACK encoder + HTTP/2 framer, h2gen.rs) vs the decoded request/response; deviation model for one known finding (a static-table defect of the HPACK dependency)",
  text="Exploration: ~4.4e5 (quick) / ~9e6 (thorough) encoded header lists: pseudo-header orders, 0..60 fields, cookie crumbs, every representation (indexed, three literal forms, name references, Huffman per string, dynamic references, size updates, non-minimal integers) (incl. OPTIONS with :path *) x framings (plain, PADDED, PRIORITY, CONTINUATION at every byte for short blocks, unfinished) x control frames before and other frames after; method/path/authority/scheme/status, ordered headers, cookies, referer, user agent, language and signature parts must equal the encoded list. Held = only the listed known-finding deviation (static table entry 15 of hpack-patched) observed.",
  note="Encoder self-checked against RFC 7541 Appendix C; optional-mark/value-elision treatment of lower-case names is unjudged.",
  design="6 C16"),
 "C17": dict(
  technique="runtime oracle: independent Akamai S|WU|P|PS reference over generated frame sequences + history check of the incremental extractor over all chunkings",
  text="Exploration: ~2e6 (quick) / ~7e7 (thorough) judged fingerprints: SETTINGS with known/unknown/duplicate ids, reserved bits, WINDOW_UPDATE variants, PRIORITY frames with exclusive bit and all weights, HEADERS with every pseudo-header order and flag combination, with/without preface, one-shot from bytes and from frames, and incrementally under one chunk, every 2-cut, byte-by-byte, frame-by-frame and random k-cuts (Some exactly once on the chunk completing the first SETTINGS, equal to the one-shot fingerprint so far); header blocks use size updates and dynamic back-references so that decoder state left by an earlier extraction would show, and every second history runs on an extractor that was reset() after earlier histories; frames of 16370..16384 octets in front of the frames that matter; streams with one oversized frame (16385..20084 octets) are judged differentially (incremental = one-shot of the bytes so far). Held = no difference.",
  note="Reference checked against the published Chrome/Firefox strings; empty or malformed first SETTINGS run crash-only.",
  design="6 C17"),
 "C02": dict(
  technique="runtime differential monitor: find_best_match vs an exhaustive in-order scan using the library's own distance, on the bundled and on generated databases (loaded through the real parser)",
  text="Exploration: the bundled database plus ~300 (quick) / 36k (thorough) generated p0f databases with wildcards, duplicates, equal-distance competitors, labels without signatures and (1 in 25) a label with 257..416 signatures; sequences of lookups on long-lived matcher objects; every signature is instantiated over all IP-version / payload-class / HTTP-version fillings (incl. HTTP/2 and HTTP/3), perturbed in one field, and mixed with random observations (~4.3e6 lookups quick). The returned label and signature must be pointer-identical to the first minimum of a full scan and the quality bit-identical; None exactly when nothing accepts. Held = no lookup differed.",
  note="The library's calculate_distance/get_quality_score are the given (their semantics are C12's subject). Generators and text printer in siggen.rs.",
  design="6 C02"),
 "C11": dict(
  technique="runtime resource monitor: counting global allocator (thread-local and process-wide counters) read after every packet of long single connections and of over-capacity connection sets",
  text="Exploration: 16 traffic kinds (unterminated HTTP heads, endless bodies, TLS application data after either hello, huge declared record, random bytes, 1-byte segments, timestamped ACKs, heads of the opposite role, several TLS records per segment, HTTP/2 DATA without HEADERS, pipelined requests, retransmission storm on seen sequence numbers, failing HPACK block that raised the table size followed by DATA) x 2 segment sizes (17th kind: a ClientHello fragment followed by a sequence hole and endless data) x HTTP/TLS/TCP/unified analyzers and one-worker pools, 2e4 (quick) / 1e6 (thorough) segments each, plus connection sets 1.2..4x the capacity and light sets of 40..400x the capacity in which every second connection is a complete exchange with header values seen nowhere else (sequential analyzers) and 8x the capacity inside one-worker HTTP/TLS pools whose queues are far longer than the capacity; retained bytes must stay <= 1 MiB per connection and must not grow by more than 64 KiB in the second half of a run; floods of 20000 frames into pools with queue sizes 0, 1, 2 must leave less than 2 MiB retained; (capacity x 1 MiB overall) and the bytes allocated for one packet <= 4 MiB + 8 x its length at every index. Held = limits never crossed; evidence lists the maximum retained KiB per case.",
  note="Allocation volume is the work proxy; limits are fixed generous constants. Needs hooks H2/H3 for the worker path (allocation counter sampled at the dequeue/processed points).",
  design="6 C11"),
 "C12": dict(
  technique="runtime oracle: field-wise reference model and metamorphic laws evaluated on calculate_distance / get_quality_score, exhaustive over small component domains, deviation models for two known findings",
  text="Exploration: all TTL form pairs over 0..255 x 0..255, window form pairs on a boundary grid, wscale/olen/mss sweeps, software-string containment cases, controlled header-list edits with 0..14 errors, all small header-list pairs, seeded random signature/instance pairs (~8e7 judged items quick), and both quality tables over 0..2^20 + strided + top 2^16 (quick) or all 2^32 distances (thorough). Laws: instances get distance 0 / quality 1.0 (also at the lookup: find_best_match on a database holding just that signature), decisive mismatches are rejected, one-field changes never lower and comparable forms add exactly the field's penalty, header error bands, tables non-increasing within [0.05,1.0] and 1.0 only at 0. Held = only the two listed known-finding deviations were observed.",
  note="Reference semantics restated from the p0f README and the crate's documented penalties (c12.rs); ambiguous sub-domains are listed in the evidence assumptions and run unjudged.",
  design="6 C12"),
 "C15": dict(
  technique="runtime differential monitor: filtered analyzers/pools vs unfiltered analyzers on the sub-trace admitted by the C14 reference applied to the analyzer's own view of each frame",
  text="Exploration: 24k (quick) / 600k (thorough) seeded traces mixing connections with odd frames (three framings incl. loopback family variants, IPv4 IHL 0..15, options, total-length lies, IPv6 with and without an extension header, non-TCP) x 3..6 filter configurations built from the trace's endpoints; filtered TCP/HTTP/TLS analyzers, filtered pools and the unified analyze_pcap must equal the unfiltered analyzer on the admitted sub-trace, every result a filtered analyzer emits is checked against the filter on its own endpoints, the opposite filter is asked about every frame right after the filter under test, the parallel TCP analyzer is used for two captures in a row, and each frame's raw-filter verdict is compared with the reference on the analyzer's view (~2.6e6 judged items quick). Held = no difference.",
  note="Needs hooks H1/H2/H3. Uses C14's reference function; frames the analyzer cannot attribute are allowed to pass.",
  design="6 C15"),
 "C20": dict(
  technique="runtime differential monitor: unified analyzer vs the protocol analyzers packet by packet under a shared virtual clock, and configuration-lattice masking check",
  text="Exploration: 40k (quick) / 600k (thorough) seeded traces with injected hostile frames and Fast Open SYNs carrying data, connection capacity 256 or (a third of the traces) exactly the number of connections; every packet that all protocol analyzers accept is compared field by field (raw signature parts, endpoints, labels and quality bit patterns) between HuginnNet::analyze_tcp and the TCP / HTTP / stateless TLS analyzers, for the 16 switch combinations with and without a database (quick rotates half of the non-default configurations per trace). Held = ~1.2e7 judged packet/configuration pairs (quick) without a difference.",
  note="Needs hooks H1/H3. Packets rejected by some analyzer are not compared; diagnosis not judged when matching is off.",
  design="6 C20"),
 "C18": dict(
  technique="runtime monitors: metamorphic check of the shard hash functions + offline history checker (exactly-once, no-processing-after-drop, counter conservation, affinity) over the hook event log under concurrent dispatchers",
  text="Exploration: (a) 30k (quick) / 1M (thorough) seeded identities x 3 pools x 9 worker counts x 6 identity-preserving variants (link layer incl. look-alike MAC addresses, payload, flags, seq/ack, window, TTL, ID, TOS, IP options incl. IHL<5, TCP options, total length, framing) plus garbage/truncated frames; (b) 1.6k (quick) / 40k (thorough) pool runs with 1..8 dispatcher threads, queue sizes 0..1024, 40..300 unique frames each, perturbation at hook points; the recorded history must show exactly-once processing of queued frames, none of dropped ones, one worker per identity, and statistics equal to the outcomes returned. Held = no history violated the rules (one listed known finding about the HTTP per-worker drop counter).",
  note="Needs hook H2. Exactly-once is observed at the WorkerProcessed hook point; frames are identified by content hash and are unique by construction.",
  design="6 C18"),
 "C10": dict(
  technique="runtime differential with event log: worker pools vs sequential analyzers on the same traces, logical drain detection through hook events, seeded schedule perturbation at hook points",
  text="Exploration: 400 (quick) / 6000 (thorough) seeded traces of 10..200 connections x the TCP, HTTP and TLS pools x 3..6 configurations (workers 1..16, batch 1/2/32, timeout 1/10 ms, perturbation rates) plus lock-step runs with a moving virtual clock, runs in which the pool is dropped while busy and the result channel is read until it closes, pools built by the analyzers' with_config + init_pool driven in lock-step with queues of 2..6 frames, hub traces in which a few hosts take part in many connections, UDP / ICMP datagrams and truncated TCP segments of the same hosts between the connections' frames, and the parallel analyze_pcap entry; result multisets and per-connection/per-sender orders must equal the sequential run. Evidence counts the distinct result-arrival orders observed (schedule diversity). Held = no run differed; undrained or overflowing runs are inconclusive.",
  note="Needs hooks H1, H2, H3. Only schedules that real threads plus perturbation produce are explored.",
  design="6 C10"),
 "C09": dict(
  technique="runtime differential + history monitor: deliveries of one connection under varied partition / ISN / arrival order vs the in-order baseline, with a coverage invariant evaluated at every report",
  text="Exploration: 3.2k (quick) / 100k (thorough) seeded HTTP/1.x and HTTP/2 exchanges, (CRLF and bare-LF heads, bodies containing blank lines) each delivered under every (strided in quick) 2-cut, every initial sequence number within one stream length of 2^32, all permutations of up to 5 client segments, random two-direction partitions/orders, and partitions with retransmitted segments and re-segmented overlaps of the stream's own bytes (~8e5 deliveries quick). Each delivery must report exactly the baseline request and response, once, in the right direction, and never before the delivered segments cover the head contiguously; 3 (quick) / 6 (thorough) deliveries per exchange also go frame by frame through the HTTP worker pool (2..8 workers, built directly or by with_config + init_pool, connections between two hosts and on one host) and must give the same request and response. Held = no delivery differed.",
  note="Needs hooks H1/H2/H3. No conflicting overlaps, FIN or RST; SYN and SYN+ACK first as the property presupposes.",
  design="6 C09"),
 "C07": dict(
  technique="runtime differential monitor: isolated vs interleaved analysis of scripted connections on the real analyzers (sequential, and free-running through the worker pools with hook-based drain detection), virtual clock, canonical per-frame / per-connection result comparison; Miri stage in the thorough tier",
  text="Exploration: 24k (quick) / 800k (thorough) seeded scenarios of 2..8 connections (TCP handshakes with timestamps, multi-segment ClientHellos, HTTP/1.x, HTTP/2 incl. hostile HPACK blocks, garbage, truncated; mirrored address/port pairs; one scenario in 16 a crowd of 18..25 connections of one client address) are each analysed alone and under 3..5 order-preserving interleavings on the TCP, HTTP, TLS and unified analyzers; the per-frame canonical results of every connection must be identical in both runs. A quarter (quick) / half (thorough) of the scenarios are also dispatched free-running to the TCP, HTTP and TLS worker pools (1..3 workers, batch 1/2/4, built directly and by with_config + init_pool, seeded perturbation at the hook points) and each connection's results after logical drain must equal those of the connection alone; a reuse stage opens a second connection on the address/port pair of a completed one (HTTP, TLS) and demands the second connection's own results. Held = no connection's result sequence changed in any explored interleaving.",
  note="Needs hooks H1 (clock), H2 (pool drain) and H3 (per-packet entry). Reach is the sampled interleavings of the generated connection kinds; the configured capacity is 64 or (half of the scenarios) exactly the number of connections.",
  design="6 C07"),
 "C19": dict(
  technique="runtime oracle: online reference state machine (exact rational arithmetic) over episodes driven with a virtual clock hook",
  text="Exploration: ~7e6 (quick) / ~5e7 (thorough) judged per-segment reports from episodes of timestamped segments whose arrival times are injected through the clock hook: every integer rate 0..1600 Hz x 13 intervals at the 25 ms / 100 ms / 600 s boundaries x 8 base timestamps (incl. wrap), minimum-tick and grid-boundary cases, backward movement, an arrival clock that steps back by 1 ms .. 11 min, and seeded interleaved client/server sequences. Each report or absence of one is compared with the documented estimator restated as a state machine. Held = no segment's report differed.",
  note="Needs hook H1 (injectable clock). The grid, bounds and the backward-movement rule are restated from the crate's documentation; float/rational boundary agreement argued in c19.rs.",
  design="6 C19"),
 "C03": dict(
  technique="runtime oracle: reference-model monitor on the packet path (model-generated segments, exhaustive per-field sweeps + seeded random headers), deviation models for listed known findings",
  text="Exploration: ~8e6 (quick) / ~4.7e7 (thorough) generated IPv4/IPv6 segments in Ethernet, raw-IP and loopback framing are analysed by HuginnNetTcp through its private per-packet path and every reported field, the role, the MTU and the link label are compared with a reference computed from the generating model. Component domains named by the property are enumerated completely (all flag bytes, TTLs, header-bit combinations, all 65536 windows per MSS/timestamp/IP-version choice, all option sequences of up to 4 options, every (kind,length) single option, timestamp options of non-standard length); a fifth of the Ethernet frames carry link-layer trailer octets after the IP datagram. Held = every execution either matched the reference or matched exactly one of the four listed known-finding deviations.",
  note="Reference model is the harness' tcpref.rs (restates the crate's documented window/TTL rules and the p0f quirk table); trusts the byte-level packet builder; judged domain restrictions are listed in the evidence assumptions.",
  design="6 C03"),
 "C14": dict(
  technique="runtime oracle: reference-model monitor over product-enumerated and seeded-random filter configurations (differential against an independent boolean function), evaluated on should_process and on the analyzers / worker pools with the filter installed (hook-based drain detection)",
  text="Exploration: every combination of the listed port/address/subnet sub-filter variants in both modes is built through the public builder API of all four FilterConfig exports and evaluated at crossed boundary ports and addresses (quick ~2e8 judged decisions, thorough all pairs), then seeded random configurations probed at their own constants +-1; filters are put together through six different sequences of builder calls (list / single calls in any order, public port fields) with unsorted and repeated entries. A quarter (quick) / half (thorough) of the random configurations are also installed in the sequential TCP/HTTP/TLS analyzers and in their worker pools (direct and analyzer-built), and one packet per endpoint tuple must yield a result exactly when the documented function admits the tuple, while a second analyzer holding the opposite filter sees every packet right after the first. Held = no decision differed from the documented rule on the explored points.",
  note="Trusts the harness' own 40-line reference function (ref_filter) and std's IpAddr parsing; configurations not expressible through the builders or the public port fields are not explored. The analyzer-level stage needs hooks H2/H3.",
  design="6 C14"),
}

NOT_YET = {}
ALL = [f"C{i:02d}" for i in range(1, 21)]

def main():
    checks = []
    for pid in ALL:
        if pid not in CHECKS:
            continue
        c = CHECKS[pid]
        checks.append({
            "property_id": pid,
            "quick_cmd": f"./run.sh {pid} quick",
            "thorough_cmd": f"./run.sh {pid} thorough",
            "evidence_file": f"/verif/evidence/{pid}.json",
            "replay_cmd_template": "/verif/target/release/hv replay {path}",
            "engine": "hv",
            "level_claimed": {"category": "exploration", "text": c["text"], "design_ref": c["design"]},
            "level_note": c["note"],
            "technique": c["technique"],
        })
    na = []
    for pid in ALL:
        if pid not in CHECKS:
            na.append({"property_id": pid, "reason": NOT_YET.get(pid, "check not built yet in this round (planned in DESIGN.md section 6); not claimed")})
    m = {
        "version": 1,
        "setup_cmd": "./setup.sh",
        "hooks": {
            "guard": "cargo feature verif-hooks (huginn-net-tcp, huginn-net-http, huginn-net-tls; forwarded by huginn-net)",
            "enable": "harness/Cargo.toml depends on the /repo crates by path with features = [\"verif-hooks\"]; ./run.sh rebuilds with cargo build --release --offline",
            "baseline_off_cmd": "cd /repo && cargo nextest run --workspace --no-fail-fast --tool-config-file pb:/w/lib/nextest.toml --profile pb --test-threads 8 --offline",
            "source_commits": HOOK_COMMITS,
            "add_only": True,
        },
        "engines": [{
            "name": "hv", "path": "/verif/harness",
            "serves_properties": [c["property_id"] for c in checks],
            "kind_free_text": "Rust harness that drives the real crates (overflow-checks + debug-assertions on) under generated workloads in sharded child processes; monitors: panic hook, counting allocator, event log over the verif-hooks points, virtual clock, independent reference models, differential/metamorphic comparators; Miri/TSan stages for the pool properties",
        }],
        "checks": checks,
        "notes": "Every check is ./run.sh <ID> <tier>: it rebuilds the harness against /repo's working tree (hooks on) and runs hv. VERIF_SEED seeds all PRNGs. Known findings: /verif/known_findings.json (DESIGN.md section 4).",
        "not_applicable": na,
    }
    json.dump(m, open("/verif/MANIFEST.json", "w"), indent=1)
    print("claimed:", [c["property_id"] for c in checks])

main()
