#!/bin/bash
# silence.sh <tier> <seed-list>   — runs every claimed check at the given seeds; prints one line per run
# and a final count of runs that were not silent (exit != 0 or a VIOLATION line).
cd "$(dirname "$0")/.."
TIER="${1:-quick}"; shift
SEEDS="${*:-1 2 3}"
BAD=0
for s in $SEEDS; do
  for id in $(python3 -c "import json;print(' '.join(c['property_id'] for c in json.load(open('MANIFEST.json'))['checks']))"); do
    OUT=$(VERIF_SEED=$s ./run.sh $id $TIER 2>&1); RC=$?
    L=$(echo "$OUT" | tail -1)
    if [ $RC -ne 0 ] || echo "$OUT" | grep -q '^VIOLATION'; then BAD=$((BAD+1)); echo "NOT-SILENT rc=$RC seed=$s :: $L"; echo "$OUT" | grep -A2 '^VIOLATION' | head -6 | cut -c1-600; else echo "ok seed=$s :: $L"; fi
  done
done
echo "runs not silent: $BAD"
