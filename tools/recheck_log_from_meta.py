#!/usr/bin/env python3
"""Rewrites seeded/RECHECK-final.log from the latest outcome kept in every seeded/<ID>/meta.json
(`owning_check_quick`, written by tools/recheck_seeded.py).  Used when the recheck was run in
several passes (patterns) instead of one pass over everything."""
import glob, json, os
rows = {}
for p in sorted(glob.glob('/verif/seeded/C*-[A-Z]/meta.json')):
    m = json.load(open(p))
    rows[os.path.basename(os.path.dirname(p))] = m.get('owning_check_quick', 'no outcome recorded')
missed = [k for k, v in rows.items() if 'exit=1 ' not in v]
with open('/verif/seeded/RECHECK-final.log', 'w') as f:
    for k in sorted(rows):
        f.write(f"{k}: {rows[k]}\n")
    f.write(f"changes: {len(rows)}\nnot caught: {missed}\n")
print(len(rows), 'changes; not caught:', missed)
