#!/usr/bin/env python3
"""recheck_seeded.py [pattern]  — runs every seeded change (default: all) against its owning check
(quick tier) with selftest/eval_seeded.sh and records the outcome in meta.json:
`owning_check_quick` is the latest outcome, `first_run` keeps the outcome of the first run ever."""
import glob, json, os, subprocess, sys
pat = sys.argv[1] if len(sys.argv) > 1 else 'C*-[A-Z]'
log = open('/verif/seeded/RECHECK-final.log', 'a' if len(sys.argv) > 1 else 'w')
missed = []
for d in sorted(glob.glob('/verif/seeded/' + pat)):
    mp = d + '/meta.json'
    if not os.path.exists(mp):
        continue
    m = json.load(open(mp))
    pid = m['property']
    out = subprocess.run(['/verif/selftest/eval_seeded.sh', d, pid], capture_output=True, text=True).stdout.strip().splitlines()
    res = out[-1] if out else 'no output'
    if 'first_run' not in m:
        m['first_run'] = m.get('owning_check_quick', res)
    m['owning_check_quick'] = res
    json.dump(m, open(mp, 'w'), indent=1)
    line = f"{os.path.basename(d)}: {res}"
    print(line[:220], flush=True)
    log.write(line + '\n')
    if 'exit=1' not in res:
        missed.append(os.path.basename(d))
print('not caught:', missed)
