#!/usr/bin/env python3
"""recheck_seeded.py [--slots N] [pattern ...]  — runs seeded changes (default: all) against their owning
check (quick tier) in N private slots (selftest/slot_eval.sh: own worktree of /repo HEAD, own harness copy,
own evidence dir; /repo and /verif/evidence stay untouched) and records the outcome in meta.json:
`owning_check_quick` is the latest outcome, `first_run` keeps the outcome of the first run ever.
With no pattern the summary is written to seeded/RECHECK-final.log."""
import glob, json, os, subprocess, sys, threading, queue
args = sys.argv[1:]
slots = 4
if args and args[0] == '--slots':
    slots = int(args[1]); args = args[2:]
pats = args or ['C*-[A-Z]']
dirs = sorted({d for p in pats for d in glob.glob('/verif/seeded/' + p) if os.path.exists(d + '/meta.json')})
q = queue.Queue()
for d in dirs:
    q.put(d)
results = {}
lock = threading.Lock()
def worker(slot):
    while True:
        try:
            d = q.get_nowait()
        except queue.Empty:
            return
        m = json.load(open(d + '/meta.json'))
        pid = m['property']
        out = subprocess.run(['/verif/selftest/slot_eval.sh', str(slot), d, pid], capture_output=True, text=True).stdout.strip().splitlines()
        res = out[-1] if out else 'no output'
        if 'first_run' not in m:
            m['first_run'] = m.get('owning_check_quick', res)
        m['owning_check_quick'] = res
        json.dump(m, open(d + '/meta.json', 'w'), indent=1)
        with lock:
            results[os.path.basename(d)] = res
            print(f"{os.path.basename(d)}: {res}"[:220], flush=True)
ts = [threading.Thread(target=worker, args=(i + 1,)) for i in range(slots)]
[t.start() for t in ts]
[t.join() for t in ts]
missed = [k for k, v in sorted(results.items()) if 'exit=1 ' not in v]
print('not caught:', missed)
if not args:
    with open('/verif/seeded/RECHECK-final.log', 'w') as f:
        for k in sorted(results):
            f.write(f"{k}: {results[k]}\n")
        f.write(f"not caught: {missed}\n")
