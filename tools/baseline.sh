#!/bin/bash
# Runs the repository's pinned baseline suite (guard OFF) and summarises it.
cd /repo && cargo nextest run --workspace --no-fail-fast --tool-config-file pb:/w/lib/nextest.toml --profile pb --test-threads 8 --offline 2>&1 | grep -E "Summary|^\s+FAIL|error\[" | sort -u
