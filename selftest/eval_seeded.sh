#!/bin/bash
# eval_seeded.sh <dir-with-patch.diff> <ID> [<ID>...]   (tier from VERIF_TIER, default quick)
# Applies the seeded change to /repo, runs the named checks, reverts /repo straight afterwards.
set -u
D="$(readlink -f "$1")"; shift
cd "${EVAL_VERIF_DIR:-/verif}"   # a snapshot of /verif may be used so that the harness can be edited meanwhile
if [ -n "$(git -C /repo status --porcelain --untracked-files=no)" ]; then echo "eval_seeded: /repo is not clean"; exit 2; fi
git -C /repo apply "$D/patch.diff" || { echo "eval_seeded: patch does not apply"; exit 2; }
trap 'git -C /repo checkout -q -- .' EXIT
for id in "$@"; do
  OUT=$(./run.sh "$id" "${VERIF_TIER:-quick}" 2>&1); RC=$?
  V=$(echo "$OUT" | grep -c '^VIOLATION')
  INC=$(echo "$OUT" | grep -o 'inconclusive=[0-9]*' | tail -1)
  echo "$id exit=$RC violation_lines=$V ${INC:-inconclusive=?} :: $(echo "$OUT" | grep '^  what:' | sort | uniq -c | sort -rn | head -2 | tr '\n' ';')"
done
