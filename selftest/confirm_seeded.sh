#!/bin/bash
# confirm_seeded.sh <dir-with-patch.diff-demo.rs-meta.json>
# Confirms, in a scratch worktree outside /repo and /verif, that a seeded change (1) applies,
# (2) keeps the existing suite at 464 passed / 1 failed, (3) makes its demonstration fail,
# and that the demonstration passes without the change.  Prints CONFIRMED or REJECTED: reason.
set -u
D="$(readlink -f "$1")"
SLOT="${CONFIRM_SLOT:-}"   # several confirmations can run side by side, one slot each
WT=/tmp/confirm_wt$SLOT
export CARGO_TARGET_DIR=/tmp/confirm_target$SLOT CARGO_NET_OFFLINE=true
if [ ! -d "$WT" ]; then git -C /repo worktree add -q --detach "$WT" HEAD || exit 2; fi
cd "$WT" && git checkout -q --detach "$(git -C /repo rev-parse HEAD)" && git checkout -q -- . && git clean -qfd
# where does the demo go?  first line: "// place at <path>" or similar; fall back on crate guess
DEST=$(head -3 "$D/demo.rs" | grep -oE 'huginn-net[a-z-]*/tests/[A-Za-z0-9_]+\.rs' | head -1)
[ -z "$DEST" ] && { echo "REJECTED: cannot tell where demo.rs belongs"; exit 1; }
CRATE=$(echo "$DEST" | cut -d/ -f1); TEST=$(basename "$DEST" .rs)
FEAT=""; grep -q "verif-hooks" "$D/demo.rs" && FEAT="--features verif-hooks"
cp "$D/demo.rs" "$WT/$DEST"
if ! cargo test -q -p "$CRATE" --test "$TEST" --offline $FEAT >/tmp/confirm_demo_clean$SLOT.log 2>&1; then echo "REJECTED: demo fails on the unchanged tree"; tail -5 /tmp/confirm_demo_clean$SLOT.log; rm -f "$WT/$DEST"; exit 1; fi
if ! git apply "$D/patch.diff"; then echo "REJECTED: patch does not apply"; rm -f "$WT/$DEST"; exit 1; fi
if cargo test -q -p "$CRATE" --test "$TEST" --offline $FEAT >/tmp/confirm_demo_mut$SLOT.log 2>&1; then echo "REJECTED: demo passes with the change"; git checkout -q -- .; rm -f "$WT/$DEST"; exit 1; fi
rm -f "$WT/$DEST"
SUM=$(cargo nextest run --workspace --no-fail-fast --offline 2>&1 | grep -E "Summary" | tail -1)
git checkout -q -- . ; git clean -qfd
# nextest adds "(n leaky)" after the pass count when test processes leave threads behind on a loaded machine
case "$SUM" in *"464 passed, 1 failed"*|*"464 passed ("*" leaky), 1 failed"*) echo "CONFIRMED: $SUM";; *) echo "REJECTED: suite: $SUM"; exit 1;; esac
