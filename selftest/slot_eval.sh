#!/bin/bash
# slot_eval.sh <slot> <dir-with-patch.diff> <ID> [<ID>...]     (tier from VERIF_TIER, default quick)
# Like eval_seeded.sh, but in a private slot: /tmp/hvslot<slot>/{repo,harness,target,verif} — a detached
# worktree of /repo's HEAD with the seeded change applied, a copy of the harness whose path dependencies
# point into that worktree, its own target and evidence directories.  /repo and /verif/evidence are not
# touched, so several slots can run side by side.  Exit code / output format as eval_seeded.sh.
set -u
SLOT="$1"; D="$(readlink -f "$2")"; shift 2
S=/tmp/hvslot$SLOT
HEAD=$(git -C /repo rev-parse HEAD)
mkdir -p "$S/verif/work" "$S/verif/evidence/replays"
if [ ! -d "$S/repo" ]; then git -C /repo worktree add -q --detach "$S/repo" "$HEAD" || exit 2; fi
( cd "$S/repo" && git checkout -q --detach "$HEAD" && git checkout -q -- . && git clean -qfd ) || exit 2
if [ -n "$(git -C /repo status --porcelain --untracked-files=no)" ]; then echo "slot_eval: /repo has uncommitted edits; the slot uses HEAD"; fi
# HARNESS_SRC: evaluate with a development copy of the harness instead of the committed one
rsync -a --delete --exclude target "${HARNESS_SRC:-/verif/harness}/" "$S/harness/"
sed -i "s#\"/repo/#\"$S/repo/#g" "$S/harness/Cargo.toml"
cp /repo/Cargo.lock "$S/harness/Cargo.lock"
cp /verif/known_findings.json "$S/verif/known_findings.json"
if [ "$D" != "$(readlink -f /dev/null)" ] && [ -f "$D/patch.diff" ]; then
  git -C "$S/repo" apply "$D/patch.diff" || { echo "slot_eval: patch does not apply"; exit 2; }
fi
export CARGO_NET_OFFLINE=true CARGO_TARGET_DIR="$S/target" HV_VERIF_DIR="$S/verif" RUST_BACKTRACE=0
if ! cargo build --release --offline --manifest-path "$S/harness/Cargo.toml" >"$S/build.log" 2>&1; then
  echo "slot_eval: build failed"; tail -5 "$S/build.log"; ( cd "$S/repo" && git checkout -q -- . ); exit 2
fi
for id in "$@"; do
  OUT=$("$S/target/release/hv" "$id" --tier "${VERIF_TIER:-quick}" --seed "${VERIF_SEED:-1}" 2>&1); RC=$?
  V=$(echo "$OUT" | grep -c '^VIOLATION')
  INC=$(echo "$OUT" | grep -o 'inconclusive=[0-9]*' | tail -1)
  echo "$id exit=$RC violation_lines=$V ${INC:-inconclusive=?} :: $(echo "$OUT" | grep '^  what:' | sort | uniq -c | sort -rn | head -2 | tr '\n' ';')"
done
( cd "$S/repo" && git checkout -q -- . && git clean -qfd )
