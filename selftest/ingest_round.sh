#!/bin/bash
# ingest_round.sh <source prefix e.g. seed4> <letter for A> <letter for B> <slot> <ID>...
# confirms and ingests the two deliveries of each property, one after the other, in the given slot
PFX="$1"; LA="$2"; LB="$3"; export CONFIRM_SLOT="$4"; shift 4
for ID in "$@"; do
  for V in A B; do
    N=$LA; [ $V = B ] && N=$LB
    /verif/selftest/ingest.sh "$ID" "$V" "$PFX" "$N" 2>&1 | cut -c1-300
  done
done
