#!/bin/bash
# ingest.sh <property id> <A|B>   : confirm a seeded change delivered in /tmp/seed_<ID>_out/<A|B>,
# keep it under /verif/seeded/<ID>-<A|B>/ and run the owning check against it.
set -u
# optional: ingest.sh <ID> <A|B> <source prefix, e.g. seed2> <name suffix, e.g. C>
ID="$1"; V="$2"; PFX="${3:-seed}"; NAME="${4:-$V}"; SRC="/tmp/${PFX}_${ID}_out/$V"; DST="/verif/seeded/${ID}-$NAME"
[ -f "$SRC/patch.diff" ] || { echo "$ID-$NAME: nothing delivered"; exit 1; }
# the confirmation may have been done beforehand (in parallel slots): $SRC/confirm.txt
if [ -f "$SRC/confirm.txt" ]; then C=$(tail -1 "$SRC/confirm.txt"); else C=$(/verif/selftest/confirm_seeded.sh "$SRC" 2>&1 | tail -1); fi
echo "$ID-$NAME: $C"
case "$C" in CONFIRMED*) ;; *) exit 1;; esac
mkdir -p "$DST"; cp "$SRC/patch.diff" "$SRC/demo.rs" "$DST/"
# evaluation in a private slot (own worktree of /repo HEAD and own evidence directory)
E=$(/verif/selftest/slot_eval.sh "${CONFIRM_SLOT:-9}" "$SRC" "$ID" 2>&1 | tail -1)
echo "$ID-$NAME: $E"
python3 - "$SRC/meta.json" "$DST/meta.json" "$ID" "$C" "$E" <<'PY'
import json,sys
src,dst,pid,conf,ev=sys.argv[1:6]
try: m=json.load(open(src))
except Exception: m={}
m['property']=pid
m['confirmed_by_maintainer_of_verif']=conf
m['ran']=[f"selftest/confirm_seeded.sh (scratch worktree: demo passes without / fails with the change; suite 464 passed, 1 failed)", f"selftest/slot_eval.sh <slot> <dir> {pid}  (private worktree of /repo HEAD with the change applied; harness rebuilt against it; hv {pid} --tier quick)"]
m['owning_check_quick']=ev
json.dump(m,open(dst,'w'),indent=1)
PY
