#!/bin/bash
# setup_cmd: build the harness offline from files on disk (warm build).
set -eu
cd "$(dirname "$0")"
export CARGO_NET_OFFLINE=true
export CARGO_TARGET_DIR=/verif/target
mkdir -p /verif/work /verif/evidence/replays
cp /repo/Cargo.lock harness/Cargo.lock.src
cp /repo/Cargo.lock harness/Cargo.lock
cargo build --release --offline --manifest-path harness/Cargo.toml
/verif/target/release/hv list
