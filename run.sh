#!/bin/bash
# ./run.sh <ID> [quick|thorough]   — rebuild the harness against /repo's current tree and run one check.
# Exit: 0 held on everything explored, 1 violation (VIOLATION line printed), 2 harness/build failure.
set -u
cd "$(dirname "$0")"
ID="${1:?property id}"
TIER="${VERIF_TIER:-${2:-quick}}"
export CARGO_NET_OFFLINE=true
# HV_TARGET_DIR / HV_VERIF_DIR are only set by background exploration runs from a snapshot
export CARGO_TARGET_DIR="${HV_TARGET_DIR:-/verif/target}"
VD="${HV_VERIF_DIR:-/verif}"
export RUST_BACKTRACE=0
mkdir -p "$VD/work" "$VD/evidence/replays"
# the lock file of the code under test pins every dependency version (offline registry)
if ! cmp -s /repo/Cargo.lock harness/Cargo.lock.src 2>/dev/null; then
  cp /repo/Cargo.lock harness/Cargo.lock.src
  cp /repo/Cargo.lock harness/Cargo.lock
fi
LOG="$VD/work/build.log"
# serialise concurrent builds; cargo itself also locks the target dir
if ! ( flock 9; cargo build --release --offline --manifest-path harness/Cargo.toml >"$LOG" 2>&1 ) 9>"$VD/work/.build.lock"; then
  echo "hv: build failed (see $LOG)" >&2
  tail -40 "$LOG" >&2
  exit 2
fi
exec "$CARGO_TARGET_DIR/release/hv" "$ID" --tier "$TIER" --seed "${VERIF_SEED:-1}"
